#!/bin/bash
# usage: round2.sh Cxx [offset]   -- renumbers /tmp/mutout_Cxx/{1,2,3} to {1+offset,...} (default offset 3),
# confirms and evaluates them
id=$1; off=${2:-3}
for n in 3 2 1; do [ -d /tmp/mutout_$id/$n ] && mv /tmp/mutout_$id/$n /tmp/mutout_$id/$((n+off)); done
for n in $((1+off)) $((2+off)) $((3+off)); do
  [ -d /tmp/mutout_$id/$n ] || continue
  python3 /verif/tools/confirm_mutation.py $id $n "" 2>&1 | tail -1
  [ -d /verif/seeded/$id-$n ] && /verif/tools/eval_seeded.sh $id-$n quick | cut -c1-260
done
