#!/usr/bin/env python3
"""confirm_mutation.py <Cxx> <n> <detected-by-text>
Confirms a seeded mutation in the scratch worktree /tmp/mut_<Cxx>: demo passes without, fails with the patch,
the module's own test suite passes with the patch. Writes /verif/seeded/<Cxx>-<n>/."""
import json, os, re, shutil, subprocess, sys
pid, n = sys.argv[1], sys.argv[2]
detected = sys.argv[3] if len(sys.argv) > 3 else ""
wt = f"/tmp/mut_{pid}"
src = f"/tmp/mutout_{pid}/{n}"
env = dict(os.environ, GOFLAGS="-mod=mod", GOPROXY="off", GOSUMDB="off")
def sh(cmd, cwd=None, timeout=1500):
    p = subprocess.run(cmd, shell=True, cwd=cwd, env=env, stdout=subprocess.PIPE, stderr=subprocess.STDOUT, text=True, errors="replace", timeout=timeout)
    return p.returncode, p.stdout
sh("git checkout -- . && git clean -fdq", wt)
patch = open(f"{src}/patch.diff").read()
files = re.findall(r'^\+\+\+ b/(\S+)', patch, re.M)
demo = open(f"{src}/demo_test.go").read()
pkg = re.search(r'^package\s+(\w+)', demo, re.M).group(1)
base = pkg[:-5] if pkg.endswith('_test') else pkg
d = os.path.dirname(files[0])
demodir = os.environ.get("DEMODIR")
while d and not demodir:
    for f in os.listdir(os.path.join(wt, d)):
        if f.endswith('.go') and not f.endswith('_test.go'):
            m = re.search(r'^package\s+(\w+)', open(os.path.join(wt, d, f)).read(), re.M)
            if m and m.group(1) == base:
                demodir = d
            break
    if demodir: break
    d = os.path.dirname(d)
if not demodir:
    # search the module of the patched file for a directory whose package has the demo's name; prefer one that the
    # notes mention
    mod = files[0].split('/')[0]
    cands = []
    for root, dirs, fs in os.walk(os.path.join(wt, mod)):
        for f in fs:
            if f.endswith('.go') and not f.endswith('_test.go'):
                m = re.search(r'^package\s+(\w+)', open(os.path.join(root, f)).read(), re.M)
                if m and m.group(1) == base:
                    cands.append(os.path.relpath(root, wt))
                break
    notes_txt = open(f"{src}/notes.md").read() if os.path.exists(f"{src}/notes.md") else ""
    pref = [c for c in cands if c in notes_txt or c.split('/', 1)[-1] in notes_txt]
    if pref:
        demodir = sorted(pref, key=len)[-1]
    elif len(cands) >= 1:
        demodir = cands[0]
if not demodir:
    print("cannot place demo"); sys.exit(2)
module = files[0].split('/')[0]
tests = re.findall(r'^func (Test\w+)\(', demo, re.M)
runpat = '^(' + '|'.join(tests) + ')$'
demofile = os.path.join(wt, demodir, 'zz_mutdemo_test.go')
open(demofile, 'w').write(demo)
rel = os.path.relpath(demodir, module)
cmd = f"go test -vet=off -count=1 -timeout 300s -run '{runpat}' ./{rel}/"
rc_clean, out_clean = sh(cmd, os.path.join(wt, module))
rc, _ = sh(f"git apply {src}/patch.diff", wt)
if rc != 0:
    print("patch does not apply"); sys.exit(2)
rc_mut, out_mut = sh(cmd, os.path.join(wt, module))
os.remove(demofile)
rc_suite, out_suite = sh("go test -vet=off -count=1 -timeout 1200s ./...", os.path.join(wt, module))
if rc_suite != 0:
    # timing-sensitive tests of the repository (heap-object counts, back-off jitter, tickers) are flaky at the
    # baseline too when all packages of a module run in parallel: re-run each failing package on its own
    failing = re.findall(r'^FAIL\t(github\S+)', out_suite, re.M)
    allok = bool(failing)
    for fp in failing:
        relp = './' + fp.split('/hive.go/' + module + '/', 1)[-1] + '/'
        ok1 = False
        for _ in range(3):
            r1, o1 = sh(f"go test -vet=off -count=1 -timeout 1200s {relp}", os.path.join(wt, module))
            if r1 == 0:
                ok1 = True
                break
        if not ok1:
            allok = False
            out_suite = o1
    if allok:
        rc_suite = 0
sh("git checkout -- . && git clean -fdq", wt)
ok = rc_clean == 0 and rc_mut != 0 and rc_suite == 0
print(f"{pid}/{n}: demo clean rc={rc_clean} mutated rc={rc_mut} suite-with-mutation rc={rc_suite} -> {'CONFIRMED' if ok else 'NOT CONFIRMED'}")
if not ok:
    print(out_clean[-600:] if rc_clean else '', out_suite[-600:] if rc_suite else '')
    sys.exit(1)
out = f"/verif/seeded/{pid}-{n}"
os.makedirs(out, exist_ok=True)
shutil.copy(f"{src}/patch.diff", out)
shutil.copy(f"{src}/demo_test.go", out)
notes = open(f"{src}/notes.md").read() if os.path.exists(f"{src}/notes.md") else ""
shutil.copy(f"{src}/notes.md", out) if notes else None
meta = {"property": pid, "mutated_files": files, "demo_placement": f"{demodir}/zz_mutdemo_test.go", "demo_command": f"cd <worktree>/{module} && GOFLAGS=-mod=mod GOPROXY=off {cmd}",
        "needs_to_manifest": (re.search(r'(?is)needs[^\n]*\n(.{0,600})', notes).group(0)[:700] if re.search(r'(?i)needs', notes) else "see notes.md"),
        "confirmed": {"demo_passes_without_patch": True, "demo_fails_with_patch": True, "module_suite_passes_with_patch": True,
                      "how": "tools/confirm_mutation.py in a scratch worktree of /repo"},
        "detected_by": detected}
json.dump(meta, open(f"{out}/meta.json", "w"), indent=1)
