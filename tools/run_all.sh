#!/bin/bash
# Runs every registered check (tier $1, default quick) in sequence; prints one status line per property.
tier=${1:-quick}
cd /verif
for id in $(python3 -c "import json;print(' '.join(c['property_id'] for c in json.load(open('MANIFEST.json'))['checks']))"); do
  start=$(date +%s)
  out=$(./bin/gosym check $id --tier $tier 2>/dev/null)
  rc=$?
  echo "$id rc=$rc $(( $(date +%s) - start ))s $(echo "$out" | grep -E '^(VIOLATION|KNOWN-FINDING|INCONCLUSIVE|BOUND)' | head -3 | tr '\n' '|')"
done
