#!/bin/bash
# usage: try_mutation.sh <patch.diff> <Cxx> [tier] [--only Func]
# Applies the patch to /repo, runs the check, reverts. Prints DETECTED / MISSED / INCONCLUSIVE.
patch=$1; id=$2; tier=${3:-quick}; shift 3
cd /repo || exit 2
if ! git diff --quiet; then echo "repo dirty"; exit 2; fi
if ! git apply --check "$patch" 2>/dev/null; then echo "PATCH-DOES-NOT-APPLY $patch"; exit 3; fi
git apply "$patch"
out=$(cd /verif && timeout 3000 ./bin/gosym check $id --tier $tier "$@" 2>&1)
rc=$?
git -C /repo checkout -- .
git -C /repo status --short | grep -v '^??' 
case $rc in
 1) echo "DETECTED rc=1"; echo "$out" | grep -E '^VIOLATION' | cut -c1-260 | head -4;;
 0) echo "MISSED rc=0";;
 *) echo "INCONCLUSIVE rc=$rc"; echo "$out" | grep -E '^(INCONCLUSIVE|BOUND)|rror' | head -5;;
esac
