#!/bin/bash
# usage: spawn_mut.sh Cxx  -> prepares worktree /tmp/mut_Cxx, prompt /tmp/mutprompt_Cxx.txt, out dir /tmp/mutout_Cxx
id=$1
git -C /repo worktree add -q --detach /tmp/mut_$id HEAD || exit 1
mkdir -p /tmp/mutout_$id
python3 - "$id" <<'PY'
import sys, json
id = sys.argv[1]
for l in open('/verif/properties.jsonl'):
    p = json.loads(l)
    if p['id'] == id:
        text = "Property %s: %s\n\n%s\n\nQuantified over: %s\n\nAnchored in files (paths may be relative to a module directory such as serializer/, runtime/, ds/, kvstore/): %s\n" % (
            p['id'], p['title'], p['statement'], p['quantifier']['text'], ', '.join(p['anchors']['files']))
t = open('/verif/tools/mut_prompt.txt').read()
t = t.replace('WORKTREE', '/tmp/mut_' + id).replace('OUTDIR', '/tmp/mutout_' + id).replace('PROPERTY_TEXT', text)
open('/tmp/mutprompt_%s.txt' % id, 'w').write(t)
PY
echo prepared $id
