#!/bin/bash
# usage: eval_patch.sh <patch.diff> <Cxx> [tier] [extra gosym args]   (parallel-safe: private worktree via VERIF_REPO)
patch=$1; id=$2; tier=${3:-quick}; shift 3
wt=$(mktemp -d /tmp/evalwt_XXXXXX); rmdir $wt
git -C /repo worktree add -q --detach $wt HEAD || exit 2
out=$(mktemp -d /tmp/evalout_XXXXXX)
if git -C $wt apply $patch 2>/dev/null; then
  res=$(VERIF_REPO=$wt VERIF_OUT=$out timeout 3000 /verif/bin/gosym check $id --tier $tier "$@" 2>/dev/null); rc=$?
  labels=$(echo "$res" | grep -E '^(VIOLATION|INCONCLUSIVE)' | sed -E 's/.*harness=([^ ]+) label="([^"]*)".*/\1: \2/' | head -3 | tr '\n' ';')
  echo "$(basename $(dirname $patch)) rc=$rc $labels"
else
  echo "$patch PATCH-DOES-NOT-APPLY"
fi
git -C /repo worktree remove --force $wt; rm -rf $out
