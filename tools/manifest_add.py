#!/usr/bin/env python3
"""usage: manifest_add.py <Cxx> <text> <note> <design_ref> ; assumptions appended from stdin lines (optional)"""
import json, sys
pid, text, note, design = sys.argv[1:5]
m = json.load(open('/verif/MANIFEST.json'))
m['checks'] = [c for c in m['checks'] if c['property_id'] != pid]
m['checks'].append({
    "property_id": pid,
    "quick_cmd": f"/verif/bin/gosym check {pid} --tier quick",
    "thorough_cmd": f"/verif/bin/gosym check {pid} --tier thorough",
    "evidence_file": f"/verif/evidence/{pid}.json",
    "replay_cmd_template": "/verif/bin/gosym replay {path}",
    "engine": "gosym",
    "level_claimed": {"category": "model_checking", "text": text, "design_ref": design},
    "level_note": note,
    "technique": "solver-based symbolic execution of go/ssa (bounded model checking, SMT bit-vectors)"})
m['checks'].sort(key=lambda c: c['property_id'])
m['not_applicable'] = [n for n in m.get('not_applicable', []) if n['property_id'] != pid]
sp = m['engines'][0]['serves_properties']
if pid not in sp:
    sp.append(pid); sp.sort()
json.dump(m, open('/verif/MANIFEST.json', 'w'), indent=1)
if not sys.stdin.isatty():
    lines = [l.strip() for l in sys.stdin if l.strip()]
    if lines:
        a = json.load(open('/verif/assumptions.json'))
        a[pid] = lines
        json.dump(a, open('/verif/assumptions.json', 'w'), indent=1)
