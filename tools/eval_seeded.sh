#!/bin/bash
# usage: eval_seeded.sh <seeded-dir-name> [tier]   e.g. eval_seeded.sh C04-2
# Evaluates one seeded change in a private scratch worktree of /repo (VERIF_REPO), in parallel-safe fashion.
name=$1; tier=${2:-quick}; id=${name%%-*}
wt=$(mktemp -d /tmp/evalwt_XXXXXX); rmdir $wt
git -C /repo worktree add -q --detach $wt HEAD || exit 2
out=$(mktemp -d /tmp/evalout_XXXXXX)
if git -C $wt apply /verif/seeded/$name/patch.diff 2>/dev/null; then
  res=$(VERIF_REPO=$wt VERIF_OUT=$out timeout 3000 /verif/bin/gosym check $id --tier $tier 2>/dev/null); rc=$?
  labels=$(echo "$res" | grep -E '^VIOLATION' | sed -E 's/.*harness=([^ ]+) label="([^"]*)".*/\1: \2/' | head -3 | tr '\n' ';')
  echo "$name rc=$rc $labels"
else
  echo "$name PATCH-DOES-NOT-APPLY"
fi
git -C /repo worktree remove --force $wt; rm -rf $out
