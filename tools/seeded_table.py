#!/usr/bin/env python3
"""Writes /verif/seeded/README.md: one row per recorded seeded change (from the meta.json files)."""
import json, os
rows = []
for d in sorted(os.listdir('/verif/seeded')):
    p = f'/verif/seeded/{d}/meta.json'
    if not os.path.exists(p):
        continue
    m = json.load(open(p))
    notes = open(f'/verif/seeded/{d}/notes.md').read() if os.path.exists(f'/verif/seeded/{d}/notes.md') else ''
    title = notes.strip().split('\n')[0].lstrip('# ').strip().replace('|', '/')
    det = m.get('detected_by') or {}
    v = (det.get('violations') or ['(not detected)'])[0].replace('|', '/')
    rows.append(f"| {d} | {', '.join(m['mutated_files'])} | {title[:160]} | {v[:170]} | {'yes: ' + m.get('strengthening', '')[:220] if m.get('initially_missed') else 'no'} |")
out = ["# Seeded changes", "",
       "Each directory holds `patch.diff` (apply with `git -C <worktree> apply`), `demo_test.go` (fails with / passes without the patch; placement and command in `meta.json`), the sub-agent's `notes.md` and `meta.json` (what was run, which check detected it).",
       "All were produced by sub-agents that saw only the property text and a scratch worktree, confirmed with `tools/confirm_mutation.py`, and evaluated with `tools/eval_seeded.sh` (quick tier, private worktree via `VERIF_REPO`).", "",
       "| id | file(s) | change | first violation reported by the quick check | missed at first? (what was strengthened) |", "|---|---|---|---|---|"] + rows
open('/verif/seeded/README.md', 'w').write('\n'.join(out) + '\n')
print(len(rows), "rows")
