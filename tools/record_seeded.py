#!/usr/bin/env python3
"""record_seeded.py <name> [<strengthening text if the change was missed at first>]
Runs tools/eval_seeded.sh <name> (quick tier) and records the outcome in /verif/seeded/<name>/meta.json."""
import json, subprocess, sys, re
name = sys.argv[1]
strength = sys.argv[2] if len(sys.argv) > 2 else ""
out = subprocess.run(["/verif/tools/eval_seeded.sh", name, "quick"], stdout=subprocess.PIPE, text=True).stdout.strip()
m = re.match(r'(\S+) rc=(\d+) ?(.*)', out)
if not m:
    print(out); sys.exit(2)
rc = int(m.group(2)); labels = [l for l in m.group(3).split(';') if l]
p = f"/verif/seeded/{name}/meta.json"
meta = json.load(open(p))
meta["detected_by"] = {"check": name.split('-')[0], "tier": "quick", "exit_code": rc, "violations": labels} if rc == 1 else {"check": None, "exit_code": rc}
meta["initially_missed"] = bool(strength)
if strength:
    meta["strengthening"] = strength
meta["what_was_run"] = ["tools/confirm_mutation.py (demo fails with / passes without the patch; module suite passes with the patch; flaky timing tests of the baseline re-run per package) in a scratch worktree",
                        f"tools/eval_seeded.sh {name} (check run against a scratch worktree with the patch applied via VERIF_REPO)"]
json.dump(meta, open(p, "w"), indent=1)
print(out[:200])
