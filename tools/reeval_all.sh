#!/bin/bash
# Re-evaluates every recorded seeded change with the current engine and harnesses (quick tier, private worktrees);
# prints one line per change. Does not modify the meta.json files.   usage: reeval_all.sh [stream streams]
cd /verif
s=${1:-0}; n=${2:-1}; k=0
for d in $(ls seeded | grep -E '^C[0-9]+-[0-9]+$'); do
  if [ $((k % n)) -eq $s ]; then tools/eval_seeded.sh $d quick | cut -c1-200; fi
  k=$((k+1))
done
