#!/bin/bash
# Re-evaluates every recorded seeded change with the current engine and harnesses (quick tier, private worktrees);
# prints one line per change. Does not modify the meta.json files.
cd /verif
for d in $(ls seeded | grep -E '^C[0-9]+-[0-9]+$'); do
  tools/eval_seeded.sh $d quick | cut -c1-200
done
