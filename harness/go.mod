module verifharness

go 1.23

require (
	github.com/iotaledger/hive.go/ads v0.0.0
	github.com/iotaledger/hive.go/app v0.0.0
	github.com/iotaledger/hive.go/apputils v0.0.0
	github.com/iotaledger/hive.go/codegen v0.0.0
	github.com/iotaledger/hive.go/constraints v0.0.0
	github.com/iotaledger/hive.go/core v0.0.0
	github.com/iotaledger/hive.go/crypto v0.0.0
	github.com/iotaledger/hive.go/db v0.0.0
	github.com/iotaledger/hive.go/ds v0.0.0
	github.com/iotaledger/hive.go/ierrors v0.0.0
	github.com/iotaledger/hive.go/kvstore v0.0.0
	github.com/iotaledger/hive.go/lo v0.0.0
	github.com/iotaledger/hive.go/log v0.0.0
	github.com/iotaledger/hive.go/logger v0.0.0
	github.com/iotaledger/hive.go/runtime v0.0.0
	github.com/iotaledger/hive.go/serializer/v2 v2.0.0
	github.com/iotaledger/hive.go/sql v0.0.0
	github.com/iotaledger/hive.go/stringify v0.0.0
	github.com/iotaledger/hive.go/web v0.0.0
	verifrt v0.0.0
)

replace (
	github.com/iotaledger/hive.go/ads => /repo/ads
	github.com/iotaledger/hive.go/app => /repo/app
	github.com/iotaledger/hive.go/apputils => /repo/apputils
	github.com/iotaledger/hive.go/codegen => /repo/codegen
	github.com/iotaledger/hive.go/constraints => /repo/constraints
	github.com/iotaledger/hive.go/core => /repo/core
	github.com/iotaledger/hive.go/crypto => /repo/crypto
	github.com/iotaledger/hive.go/db => /repo/db
	github.com/iotaledger/hive.go/ds => /repo/ds
	github.com/iotaledger/hive.go/ierrors => /repo/ierrors
	github.com/iotaledger/hive.go/kvstore => /repo/kvstore
	github.com/iotaledger/hive.go/lo => /repo/lo
	github.com/iotaledger/hive.go/log => /repo/log
	github.com/iotaledger/hive.go/logger => /repo/logger
	github.com/iotaledger/hive.go/runtime => /repo/runtime
	github.com/iotaledger/hive.go/serializer/v2 => /repo/serializer
	github.com/iotaledger/hive.go/sql => /repo/sql
	github.com/iotaledger/hive.go/stringify => /repo/stringify
	github.com/iotaledger/hive.go/web => /repo/web
	verifrt => /verif/verifrt
)
