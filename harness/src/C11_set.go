//verif:pkg ds
package ds

import (
	"sync"
	"sync/atomic"

	"verifrt"

	"github.com/iotaledger/hive.go/ds/orderedmap"
)

// Property C11: OrderedMap and Set behave as an insertion-ordered map/set; diffs are exact; no deadlock.

// c11Model is an insertion-ordered map over byte keys.
type c11Model struct {
	k []uint8
	v []uint8
}

func (m *c11Model) idx(k uint8) int {
	for i := range m.k {
		if m.k[i] == k {
			return i
		}
	}

	return -1
}

func (m *c11Model) set(k, v uint8) (uint8, bool) {
	if i := m.idx(k); i >= 0 {
		old := m.v[i]
		m.v[i] = v

		return old, true
	}
	m.k = append(m.k, k)
	m.v = append(m.v, v)

	return 0, false
}

func (m *c11Model) del(k uint8) bool {
	i := m.idx(k)
	if i < 0 {
		return false
	}
	m.k = append(append([]uint8{}, m.k[:i]...), m.k[i+1:]...)
	m.v = append(append([]uint8{}, m.v[:i]...), m.v[i+1:]...)

	return true
}

func (m *c11Model) clone() *c11Model {
	return &c11Model{append([]uint8{}, m.k...), append([]uint8{}, m.v...)}
}

func c11Universe() [3]uint8 {
	return [3]uint8{verifrt.U8("k0"), verifrt.U8("k1"), verifrt.U8("k2")}
}

func c11CheckMap(om *orderedmap.OrderedMap[uint8, uint8], m *c11Model, what string) {
	verifrt.Assert(om.Size() == len(m.k), what+": Size differs from the model")
	i := 0
	om.ForEach(func(k, v uint8) bool {
		verifrt.Assert(i < len(m.k) && m.k[i] == k && m.v[i] == v, what+": ForEach does not visit the live keys in first-insertion order")
		i++

		return true
	})
	verifrt.Assert(i == len(m.k), what+": ForEach visited too few entries")
	j := len(m.k) - 1
	om.ForEachReverse(func(k, v uint8) bool {
		verifrt.Assert(j >= 0 && m.k[j] == k && m.v[j] == v, what+": ForEachReverse does not visit the live keys in reverse insertion order")
		j--

		return true
	})
	verifrt.Assert(j == -1, what+": ForEachReverse visited too few entries")
	hk, hv, hok := om.Head()
	tk, tv, tok := om.Tail()
	if len(m.k) == 0 {
		verifrt.Assert(!hok && !tok, what+": Head/Tail of an empty map report an entry")
	} else {
		n := len(m.k) - 1
		verifrt.Assert(hok && hk == m.k[0] && hv == m.v[0], what+": Head differs from the oldest live entry")
		verifrt.Assert(tok && tk == m.k[n] && tv == m.v[n], what+": Tail differs from the newest live entry")
	}
}

//verif:h prop=C11 p.ops=3/4 cover=set-new,set-old,delete-hit,delete-miss,clear,clone,stop,delete-in-foreach runs=2000000 timeout=900/900
func H_C11_orderedmap() {
	u := c11Universe()
	om := orderedmap.New[uint8, uint8]()
	m := &c11Model{}
	n := verifrt.Param("ops", 3)
	for s := 0; s < n; s++ {
		k := u[verifrt.Choose("key", 3)]
		switch verifrt.Choose("op", 8) {
		case 7: // delete the entry under the cursor while iterating: the iteration still reaches every later entry
			before := m.clone()
			visited := 0
			om.ForEach(func(key, _ uint8) bool {
				verifrt.Assert(visited < len(before.k) && before.k[visited] == key, "OrderedMap.ForEach with deletion in the callback does not visit the entries in insertion order")
				visited++
				if key == k {
					om.Delete(key)
					m.del(key)
					verifrt.Cover("delete-in-foreach")
				}

				return true
			})
			verifrt.Assert(visited == len(before.k), "OrderedMap.ForEach stopped early after the callback deleted the current entry")
		case 0:
			v := verifrt.U8("v")
			pv, pe := om.Set(k, v)
			mv, me := m.set(k, v)
			if me {
				verifrt.Cover("set-old")
			} else {
				verifrt.Cover("set-new")
			}
			verifrt.Assert(pe == me && (!me || pv == mv), "OrderedMap.Set: reported previous value/presence differs from the model")
		case 1:
			gv, ge := om.Get(k)
			i := m.idx(k)
			verifrt.Assert(ge == (i >= 0) && (i < 0 || gv == m.v[i]), "OrderedMap.Get differs from the model")
			verifrt.Assert(om.Has(k) == (i >= 0), "OrderedMap.Has differs from the model")
		case 2:
			d := om.Delete(k)
			md := m.del(k)
			if md {
				verifrt.Cover("delete-hit")
			} else {
				verifrt.Cover("delete-miss")
			}
			verifrt.Assert(d == md, "OrderedMap.Delete: reported presence differs from the model")
		case 3:
			om.Clear()
			m = &c11Model{}
			verifrt.Cover("clear")
		case 4:
			c := om.Clone()
			c11CheckMap(c, m, "Clone")
			c.Set(k, 1) // the clone is independent
			verifrt.Cover("clone")
		case 5: // early stop
			stop := verifrt.Choose("stopAt", 2)
			seen := 0
			completed := om.ForEach(func(uint8, uint8) bool {
				seen++

				return seen-1 != stop
			})
			if len(m.k) > stop {
				verifrt.Cover("stop")
				verifrt.Assert(!completed && seen == stop+1, "OrderedMap.ForEach did not stop when the consumer said so")
			} else {
				verifrt.Assert(completed && seen == len(m.k), "OrderedMap.ForEach: wrong number of visits")
			}
		case 6:
			verifrt.Assert(om.IsEmpty() == (len(m.k) == 0), "OrderedMap.IsEmpty differs from the model")
		}
		c11CheckMap(om, m, "OrderedMap")
	}
}

// ---------------------------------------------------------------------------
// Set

type c11Set struct{ e []uint8 }

func (s *c11Set) has(k uint8) bool {
	for _, x := range s.e {
		if x == k {
			return true
		}
	}

	return false
}

func (s *c11Set) add(k uint8) bool {
	if s.has(k) {
		return false
	}
	s.e = append(s.e, k)

	return true
}

func (s *c11Set) del(k uint8) bool {
	for i, x := range s.e {
		if x == k {
			s.e = append(append([]uint8{}, s.e[:i]...), s.e[i+1:]...)

			return true
		}
	}

	return false
}

// c11Subset builds a real Set and its model from a choice of universe members.
func c11Subset(u [3]uint8, name string) (Set[uint8], *c11Set) {
	s, m := NewSet[uint8](), &c11Set{}
	mask := verifrt.Choose(name, 8)
	for i := 0; i < 3; i++ {
		if mask&(1<<i) != 0 {
			s.Add(u[i])
			m.add(u[i])
		}
	}

	return s, m
}

// c11SameSet: the real set contains exactly the model's elements (order not compared).
func c11SameSet(s ReadableSet[uint8], m *c11Set, what string) {
	verifrt.Assert(s.Size() == len(m.e), what+": size differs from the model")
	for _, x := range m.e {
		verifrt.Assert(s.Has(x), what+": an expected element is missing")
	}
}

func c11SameOrder(s ReadableSet[uint8], m *c11Set, what string) {
	sl := s.ToSlice()
	verifrt.Assert(len(sl) == len(m.e), what+": ToSlice length differs from the model")
	for i := range sl {
		if i < len(m.e) {
			verifrt.Assert(sl[i] == m.e[i], what+": elements are not in first-insertion order")
		}
	}
}

//verif:h prop=C11 p.ops=1/2 cover=add,addall,delete,deleteall,apply,compute,replace,algebra,self runs=3000000 timeout=900/900
func H_C11_set() {
	u := c11Universe()
	s, m := c11Subset(u, "init")
	n := verifrt.Param("ops", 2)
	for step := 0; step < n; step++ {
		switch verifrt.Choose("op", 9) {
		case 8: // the set itself as argument
			if verifrt.Choose("self", 2) == 0 {
				removed := s.DeleteAll(s)
				c11SameSet(removed, m, "Set.DeleteAll(itself): returned elements are not exactly the removed ones")
				m = &c11Set{}
			} else {
				added := s.AddAll(s)
				c11SameSet(added, &c11Set{}, "Set.AddAll(itself) reported additions")
			}
			verifrt.Cover("self")
		case 0:
			k := u[verifrt.Choose("key", 3)]
			verifrt.Assert(s.Add(k) == m.add(k), "Set.Add: reported novelty differs from the model")
			verifrt.Cover("add")
		case 1:
			k := u[verifrt.Choose("key", 3)]
			verifrt.Assert(s.Delete(k) == m.del(k), "Set.Delete: reported presence differs from the model")
			verifrt.Cover("delete")
		case 2:
			o, om := c11Subset(u, "other")
			added := s.AddAll(o)
			want := &c11Set{}
			for _, x := range om.e {
				if m.add(x) {
					want.add(x)
				}
			}
			c11SameSet(added, want, "Set.AddAll: returned elements are not exactly the newly added ones")
			verifrt.Cover("addall")
		case 3:
			o, om := c11Subset(u, "other")
			removed := s.DeleteAll(o)
			want := &c11Set{}
			for _, x := range om.e {
				if m.del(x) {
					want.add(x)
				}
			}
			c11SameSet(removed, want, "Set.DeleteAll: returned elements are not exactly the removed ones")
			verifrt.Cover("deleteall")
		case 4, 5:
			add, addM := c11Subset(u, "added")
			del, delM := c11Subset(u, "deleted")
			for _, x := range addM.e { // mutations with overlapping added/deleted sets are not meaningful input
				verifrt.Assume(!delM.has(x))
			}
			mut := NewSetMutations[uint8]().WithAddedElements(add).WithDeletedElements(del)
			var applied SetMutations[uint8]
			if verifrt.Choose("viaCompute", 2) == 1 {
				applied = s.Compute(func(cur ReadableSet[uint8]) SetMutations[uint8] {
					c11SameSet(cur, m, "Set.Compute: the factory does not see the current contents")

					return mut
				})
				verifrt.Cover("compute")
			} else {
				applied = s.Apply(mut)
				verifrt.Cover("apply")
			}
			wantA, wantD := &c11Set{}, &c11Set{}
			for _, x := range addM.e {
				if m.add(x) {
					wantA.add(x)
				}
			}
			for _, x := range delM.e {
				if m.del(x) {
					wantD.add(x)
				}
			}
			c11SameSet(applied.AddedElements(), wantA, "Set.Apply/Compute: applied added elements are not exactly the newly added ones")
			c11SameSet(applied.DeletedElements(), wantD, "Set.Apply/Compute: applied deleted elements are not exactly the removed ones")
		case 6:
			o, om := c11Subset(u, "other")
			removed := s.Replace(o)
			want := &c11Set{}
			for _, x := range m.e {
				if !om.has(x) {
					want.add(x)
				}
			}
			m = &c11Set{e: append([]uint8{}, om.e...)}
			c11SameSet(removed, want, "Set.Replace: returned elements are not exactly the removed ones")
			verifrt.Cover("replace")
		case 7: // read-only algebra against the mathematical definition
			o, om := c11Subset(u, "other")
			all, inter := true, &c11Set{}
			for _, x := range om.e {
				if !m.has(x) {
					all = false
				}
			}
			for _, x := range m.e {
				if om.has(x) {
					inter.add(x)
				}
			}
			verifrt.Assert(s.HasAll(o) == all, "Set.HasAll differs from the definition")
			verifrt.Assert(s.Equals(o) == (all && len(om.e) == len(m.e)), "Set.Equals differs from the definition")
			c11SameSet(s.Intersect(o), inter, "Set.Intersect differs from the definition")
			k := u[verifrt.Choose("key", 3)]
			flt := &c11Set{}
			for _, x := range m.e {
				if x != k {
					flt.add(x)
				}
			}
			c11SameSet(s.Filter(func(e uint8) bool { return e != k }), flt, "Set.Filter differs from the definition")
			verifrt.Assert(s.Is(k) == (len(m.e) == 1 && m.e[0] == k), "Set.Is differs from the definition")
			a, ok := s.Any()
			verifrt.Assert(ok == (len(m.e) > 0) && (!ok || m.has(a)), "Set.Any returned a non-member")
			c := s.Clone()
			c11SameOrder(c, m, "Set.Clone")
			c.Add(k) // independent copy
			verifrt.Assert(s.IsEmpty() == (len(m.e) == 0), "Set.IsEmpty differs from the model")
			verifrt.Cover("algebra")
		}
		c11SameSet(s, m, "Set contents")
		c11SameOrder(s, m, "Set order")
	}
}

//verif:h prop=C11 cover=threshold1,threshold2 runs=2000000 timeout=900/900 p.ops=2/3
func H_C11_arithmetic() {
	u := c11Universe()
	ar := NewSetArithmetic[uint8]()
	thr := 1 + verifrt.Choose("threshold", 2)
	// model: per-element counter; an element is "in" iff counter >= threshold
	var cnt [3]int
	count := func(k uint8) *int {
		for i := 0; i < 3; i++ {
			if u[i] == k {
				return &cnt[i]
			}
		}

		return nil
	}
	verifrt.Assume(u[0] != u[1] && u[1] != u[2] && u[0] != u[2])
	n := verifrt.Param("ops", 2)
	for step := 0; step < n; step++ {
		add, addM := c11Subset(u, "added")
		del, delM := c11Subset(u, "deleted")
		for _, x := range addM.e {
			verifrt.Assume(!delM.has(x))
		}
		mut := NewSetMutations[uint8]().WithAddedElements(add).WithDeletedElements(del)
		sub := verifrt.Choose("subtract", 2) == 1
		var out SetMutations[uint8]
		if sub {
			out = ar.Subtract(mut, thr)
		} else {
			out = ar.Add(mut, thr)
		}
		wantA, wantD := &c11Set{}, &c11Set{}
		bump := func(x uint8, up bool) {
			c := count(x)
			was := *c >= thr
			if up {
				*c++
			} else {
				*c--
			}
			now := *c >= thr
			if !was && now {
				wantA.add(x)
			}
			if was && !now {
				wantD.add(x)
			}
		}
		for _, x := range addM.e {
			bump(x, !sub)
		}
		for _, x := range delM.e {
			bump(x, sub)
		}
		c11SameSet(out.AddedElements(), wantA, "SetArithmetic: elements reported as crossing the threshold upwards differ from the definition")
		c11SameSet(out.DeletedElements(), wantD, "SetArithmetic: elements reported as crossing the threshold downwards differ from the definition")
		if thr == 1 {
			verifrt.Cover("threshold1")
		} else {
			verifrt.Cover("threshold2")
		}
	}
}

// H_C11_conc: every combination of two concurrent Set methods returns (no deadlock), Apply/Compute/Replace
// are atomic with respect to each other, single-element operations are linearizable.
//
//verif:h prop=C11 preempt=2/3 cover=done runs=3000000 timeout=900/900 steps=300000
func H_C11_conc() {
	s := NewSet[uint8](1, 2)
	other := NewSet[uint8](2, 3)
	other2 := NewSet[uint8](7, 8)
	mutAdd := NewSetMutations[uint8](4, 5)
	var wg sync.WaitGroup
	var sawMid bool
	var added, deleted atomic.Int32
	run := func(which int) {
		defer wg.Done()
		verifrt.MustFinish()
		switch which {
		case 0:
			if s.Add(3) {
				added.Add(1)
			}
		case 1:
			if s.Delete(1) {
				deleted.Add(1)
			}
		case 2:
			s.AddAll(other)
		case 3:
			s.DeleteAll(other)
		case 4:
			s.Apply(mutAdd)
		case 5:
			s.Compute(func(cur ReadableSet[uint8]) SetMutations[uint8] {
				// atomicity with respect to Apply(4,5): both or neither
				if cur.Has(4) != cur.Has(5) {
					sawMid = true
				}

				return NewSetMutations[uint8](6)
			})
		case 6:
			s.Replace(other)
		case 7:
			s.HasAll(other)
			s.Equals(other)
			s.ToSlice()
		case 8:
			s.Replace(other2)
		}
	}
	a := verifrt.Choose("a", 9)
	b := verifrt.Choose("b", 9)
	wg.Add(2)
	go run(a)
	go run(b)
	wg.Wait()
	verifrt.Cover("done")
	verifrt.Assert(!sawMid, "Compute observed a half-applied Apply")
	// Replace is atomic with respect to Replace: the result is one of the two arguments, never a mixture
	if (a == 6 && b == 8) || (a == 8 && b == 6) {
		verifrt.Assert(s.Equals(other) || s.Equals(other2), "two concurrent Replace calls left a mixture of both arguments")
	}
	// Add / Delete report the prior presence: of two concurrent Add(3) (Delete(1)) exactly one sees the change
	if a == 0 && b == 0 {
		verifrt.Assert(added.Load() == 1 && s.Has(3), "two concurrent Add calls of one absent element did not report 'added' exactly once")
	}
	if a == 1 && b == 1 {
		verifrt.Assert(deleted.Load() == 1 && !s.Has(1), "two concurrent Delete calls of one present element did not report 'deleted' exactly once")
	}
	// single-element linearizability: Add(3) || Delete(1) from {1,2}
	if (a == 0 && b == 1) || (a == 1 && b == 0) {
		verifrt.Assert(s.Has(3) && !s.Has(1) && s.Has(2) && s.Size() == 2, "concurrent Add/Delete lost an update")
	}
}
