//verif:pkg serializer
package serializer

import (
	"bytes"
	"encoding/binary"
	"math"
	"math/big"
	"time"

	"verifrt"
)

// Tier 1 of C01 / C02 / C03: the byte primitives of Serializer / Deserializer (no reflection involved).

func c01Err(err error) error { return err }

var c01Prefixes = [3]SeriLengthPrefixType{SeriLengthPrefixTypeAsByte, SeriLengthPrefixTypeAsUint16, SeriLengthPrefixTypeAsUint32}

func c01PrefixWidth(p SeriLengthPrefixType) int {
	switch p {
	case SeriLengthPrefixTypeAsByte:
		return 1
	case SeriLengthPrefixTypeAsUint16:
		return 2
	}

	return 4
}

// le is the reference layout of a fixed-width number: little endian.
func c01LE(v uint64, width int) []byte {
	b := make([]byte, width)
	for i := 0; i < width; i++ {
		b[i] = byte(v >> (8 * uint(i)))
	}

	return b
}

// ---------------------------------------------------------------------------------------------------------
// C01: round trips, consumed == produced, deterministic

//verif:h prop=C01 cover=u8,i8,u16,i16,u32,i32,u64,i64,bool,byte
func H_C01_num() {
	var enc []byte
	var err error
	check := func(size int, read func(d *Deserializer) bool) {
		verifrt.Assert(err == nil && len(enc) == size, "WriteNum failed or produced a wrong number of bytes")
		d := NewDeserializer(enc)
		ok := read(d)
		n, derr := d.Done()
		verifrt.Assert(derr == nil && n == len(enc), "ReadNum did not report exactly the number of bytes produced")
		verifrt.Assert(ok, "ReadNum(WriteNum(v)) differs from v")
	}
	switch verifrt.Choose("type", 10) {
	case 0:
		v := verifrt.U8("v")
		enc, err = NewSerializer().WriteNum(v, c01Err).Serialize()
		check(1, func(d *Deserializer) bool { var o uint8; d.ReadNum(&o, c01Err); return o == v })
		verifrt.Cover("u8")
	case 1:
		v := verifrt.I8("v")
		enc, err = NewSerializer().WriteNum(v, c01Err).Serialize()
		check(1, func(d *Deserializer) bool { var o int8; d.ReadNum(&o, c01Err); return o == v })
		verifrt.Cover("i8")
	case 2:
		v := verifrt.U16("v")
		enc, err = NewSerializer().WriteNum(v, c01Err).Serialize()
		check(2, func(d *Deserializer) bool { var o uint16; d.ReadNum(&o, c01Err); return o == v })
		verifrt.Cover("u16")
	case 3:
		v := verifrt.I16("v")
		enc, err = NewSerializer().WriteNum(v, c01Err).Serialize()
		check(2, func(d *Deserializer) bool { var o int16; d.ReadNum(&o, c01Err); return o == v })
		verifrt.Cover("i16")
	case 4:
		v := verifrt.U32("v")
		enc, err = NewSerializer().WriteNum(v, c01Err).Serialize()
		check(4, func(d *Deserializer) bool { var o uint32; d.ReadNum(&o, c01Err); return o == v })
		verifrt.Cover("u32")
	case 5:
		v := verifrt.I32("v")
		enc, err = NewSerializer().WriteNum(v, c01Err).Serialize()
		check(4, func(d *Deserializer) bool { var o int32; d.ReadNum(&o, c01Err); return o == v })
		verifrt.Cover("i32")
	case 6:
		v := verifrt.U64("v")
		enc, err = NewSerializer().WriteNum(v, c01Err).Serialize()
		check(8, func(d *Deserializer) bool { var o uint64; d.ReadNum(&o, c01Err); return o == v })
		verifrt.Cover("u64")
	case 7:
		v := verifrt.I64("v")
		enc, err = NewSerializer().WriteNum(v, c01Err).Serialize()
		check(8, func(d *Deserializer) bool { var o int64; d.ReadNum(&o, c01Err); return o == v })
		verifrt.Cover("i64")
	case 8:
		v := verifrt.Bool("v")
		enc, err = NewSerializer().WriteBool(v, c01Err).Serialize()
		check(1, func(d *Deserializer) bool { var o bool; d.ReadBool(&o, c01Err); return o == v })
		verifrt.Cover("bool")
	case 9:
		v := verifrt.U8("v")
		enc, err = NewSerializer().WriteByte(v, c01Err).Serialize()
		check(1, func(d *Deserializer) bool { var o byte; d.ReadByte(&o, c01Err); return o == v })
		verifrt.Cover("byte")
	}
}

//verif:h prop=C01 p.maxlen=3/6 cover=fixed,variable,string,refused
func H_C01_bytes() {
	data := verifrt.Bytes("data", verifrt.Param("maxlen", 3))
	switch verifrt.Choose("kind", 3) {
	case 0: // fixed-size bytes, followed by a trailer to see that exactly len bytes are consumed
		enc, err := NewSerializer().WriteBytes(data, c01Err).WriteByte(0xAB, c01Err).Serialize()
		verifrt.Assert(err == nil && len(enc) == len(data)+1, "WriteBytes failed")
		var out []byte
		var tail byte
		n, derr := NewDeserializer(enc).ReadBytes(&out, len(data), c01Err).ReadByte(&tail, c01Err).Done()
		verifrt.Assert(derr == nil && n == len(enc) && bytes.Equal(out, data) && tail == 0xAB, "ReadBytes(WriteBytes(b)) differs from b")
		in := make([]byte, len(data))
		_, derr = NewDeserializer(enc).ReadBytesInPlace(in, c01Err).Done()
		verifrt.Assert(derr == nil && bytes.Equal(in, data), "ReadBytesInPlace(WriteBytes(b)) differs from b")
		verifrt.Cover("fixed")
	case 1, 2:
		p := c01Prefixes[verifrt.Choose("prefix", 3)]
		minLen, maxLen := verifrt.Choose("min", 3), verifrt.Choose("max", 4)
		asString := verifrt.Choose("asString", 2) == 1
		var enc []byte
		var err error
		if asString {
			enc, err = NewSerializer().WriteString(string(data), p, c01Err, minLen, maxLen).Serialize()
		} else {
			enc, err = NewSerializer().WriteVariableByteSlice(data, p, c01Err, minLen, maxLen).Serialize()
		}
		inBounds := !(maxLen > 0 && len(data) > maxLen) && !(minLen > 0 && len(data) < minLen)
		if !inBounds {
			verifrt.Cover("refused")
			verifrt.Assert(err != nil, "a slice outside the min/max bounds was encoded")

			return
		}
		verifrt.Assert(err == nil && len(enc) == c01PrefixWidth(p)+len(data), "WriteVariableByteSlice/WriteString failed or produced a wrong number of bytes")
		if asString {
			var out string
			n, derr := NewDeserializer(enc).ReadString(&out, p, c01Err, minLen, maxLen).Done()
			verifrt.Assert(derr == nil && n == len(enc) && out == string(data), "ReadString(WriteString(s)) differs from s")
			verifrt.Cover("string")
		} else {
			var out []byte
			n, derr := NewDeserializer(enc).ReadVariableByteSlice(&out, p, c01Err, minLen, maxLen).Done()
			verifrt.Assert(derr == nil && n == len(enc) && bytes.Equal(out, data), "ReadVariableByteSlice(WriteVariableByteSlice(b)) differs from b")
			verifrt.Cover("variable")
		}
		enc2, _ := NewSerializer().WriteVariableByteSlice(data, p, c01Err, minLen, maxLen).Serialize()
		if !asString {
			verifrt.Assert(bytes.Equal(enc, enc2), "encoding the same value twice gave different bytes")
		}
	}
}

//verif:h prop=C01 p.words=1/2 cover=roundtrip,toobig solverms=20000 portfolio=120
func H_C01_uint256() {
	// a value of up to p.words 64-bit words (the rest of the 32 bytes is zero); plus the too-big rejection
	nb := 8 * verifrt.Param("words", 1)
	raw := verifrt.BytesN("be", nb)
	v := new(big.Int).SetBytes(raw)
	enc, err := NewSerializer().WriteUint256(v, c01Err).Serialize()
	verifrt.Assert(err == nil && len(enc) == 32, "WriteUint256 failed or did not produce 32 bytes")
	var out *big.Int
	n, derr := NewDeserializer(enc).ReadUint256(&out, c01Err).Done()
	verifrt.Assert(derr == nil && n == 32 && out != nil && out.Cmp(v) == 0, "ReadUint256(WriteUint256(v)) differs from v")
	verifrt.Cover("roundtrip")
	// reference layout: little endian, zero padded
	for i := 0; i < 32; i++ {
		want := byte(0)
		if i < nb {
			want = raw[nb-1-i]
		}
		verifrt.Assert(enc[i] == want, "uint256 is not encoded as 32 little-endian bytes")
	}
	big := new(big.Int).Lsh(big.NewInt(1), 256)
	_, err = NewSerializer().WriteUint256(big, c01Err).Serialize()
	verifrt.Assert(err != nil, "a value above 2^256-1 was encoded")
	_, err = NewSerializer().WriteUint256(nil, c01Err).Serialize()
	verifrt.Assert(err != nil, "a nil *big.Int was encoded")
	verifrt.Cover("toobig")
}

// H_C01_slices: WriteSliceOfByteSlices / ReadSequenceOfObjects with 1-byte elements; with lexical ordering the
// output does not depend on the order of the input.
//
//verif:h prop=C01 p.elems=2/3 cover=roundtrip,ordered
func H_C01_slices() {
	n := verifrt.Choose("n", verifrt.Param("elems", 2)+1)
	elems := make([][]byte, n)
	for i := range elems {
		elems[i] = verifrt.BytesN("e", 1)
	}
	p := c01Prefixes[verifrt.Choose("prefix", 3)]
	rules := &ArrayRules{}
	mode := DeSeriModeNoValidation
	ordered := verifrt.Choose("ordered", 2) == 1
	if ordered {
		rules.ValidationMode = ArrayValidationModeLexicalOrdering
		mode = DeSeriModePerformLexicalOrdering
	}
	cp := func(rev bool) [][]byte {
		out := make([][]byte, n)
		for i := range elems {
			j := i
			if rev {
				j = n - 1 - i
			}
			out[i] = append([]byte{}, elems[j]...)
		}

		return out
	}
	enc, err := NewSerializer().WriteSliceOfByteSlices(cp(false), mode, p, rules, c01Err).Serialize()
	verifrt.Assert(err == nil && len(enc) == c01PrefixWidth(p)+n, "WriteSliceOfByteSlices failed")
	var got []byte
	cnt, derr := NewDeserializer(enc).ReadSequenceOfObjects(func(b []byte) (int, error) {
		got = append(got, b[0])

		return 1, nil
	}, DeSeriModeNoValidation, p, rules, c01Err).Done()
	verifrt.Assert(derr == nil && cnt == len(enc) && len(got) == n, "ReadSequenceOfObjects did not consume exactly what was produced")
	verifrt.Cover("roundtrip")
	if ordered {
		enc2, err2 := NewSerializer().WriteSliceOfByteSlices(cp(true), mode, p, rules, c01Err).Serialize()
		verifrt.Assert(err2 == nil && bytes.Equal(enc, enc2), "with lexical ordering the encoding depends on the order of the input")
		for i := 1; i < len(got); i++ {
			verifrt.Assert(got[i-1] <= got[i], "with lexical ordering the elements are not written in byte-lexical order")
		}
		verifrt.Cover("ordered")
	} else {
		for i := range got {
			verifrt.Assert(got[i] == elems[i][0], "elements were reordered or changed")
		}
	}
}

// ---------------------------------------------------------------------------------------------------------
// C02: total and resource-bounded on arbitrary input

//verif:h prop=C02 p.maxlen=5/8 cover=ok,error steps=600000 runs=3000000 timeout=900/900
func H_C02_deserializer() {
	src := verifrt.Bytes("src", verifrt.Param("maxlen", 5))
	verifrt.AllocBudget(2*len(src) + 40)
	d := NewDeserializer(src)
	d.offset = verifrt.Choose("offset", len(src)+1) // arbitrary position inside the buffer (Appendix A.10)
	start := d.offset
	kind := verifrt.Choose("reader", 16)
	p := c01Prefixes[verifrt.Choose("prefix", 3)]
	minLen, maxLen := verifrt.Choose("min", 2), verifrt.Choose("max", 3)
	items := 0
	func() {
		defer func() {
			if r := recover(); r != nil {
				verifrt.Assert(false, "a Deserializer primitive panicked on arbitrary input")
			}
		}()
		switch kind {
		case 0:
			var o bool
			d.ReadBool(&o, c01Err)
		case 1:
			var o byte
			d.ReadByte(&o, c01Err)
		case 2:
			var o uint16
			d.ReadNum(&o, c01Err)
		case 3:
			var o uint32
			d.ReadNum(&o, c01Err)
		case 4:
			var o int64
			d.ReadNum(&o, c01Err)
		case 5:
			var o []byte
			d.ReadBytes(&o, verifrt.Choose("n", 4), c01Err)
		case 6:
			var o []byte
			d.ReadVariableByteSlice(&o, p, c01Err, minLen, maxLen)
		case 7:
			var o string
			d.ReadString(&o, p, c01Err, minLen, maxLen)
		case 8:
			var o *big.Int
			d.ReadUint256(&o, c01Err)
		case 9:
			d.Skip(verifrt.Choose("n", 4), c01Err)
		case 11:
			_, _ = d.GetObjectType([]TypeDenotationType{TypeDenotationUint32, TypeDenotationByte, TypeDenotationNone}[verifrt.Choose("den", 3)])
		case 12:
			var o time.Time
			d.ReadTime(&o, c01Err)
		case 13:
			_, _ = d.ReadPayloadLength()
		case 14:
			d.CheckTypePrefix(uint32(verifrt.U8("want")), []TypeDenotationType{TypeDenotationUint32, TypeDenotationByte}[verifrt.Choose("den", 2)], c01Err)
		case 15:
			d.ReadBytesInPlace(make([]byte, verifrt.Choose("n", 4)), c01Err)
		case 10: // a sequence of zero-width or 1-byte items: iterations must be bounded by the input
			width := verifrt.Choose("itemWidth", 2)
			d.ReadSequenceOfObjects(func(b []byte) (int, error) {
				items++
				if width == 0 {
					verifrt.Assert(items <= len(src)+1, "ReadSequenceOfObjects with zero-width items iterates in proportion to a length field that exceeds the remaining input")
				} else {
					verifrt.Assert(items <= len(src)+1, "ReadSequenceOfObjects iterates in proportion to a length field that exceeds the remaining input")
				}
				if len(b) < width {
					return 0, ErrDeserializationNotEnoughData
				}

				return width, nil
			}, DeSeriModeNoValidation, p, &ArrayRules{}, c01Err)
		}
	}()
	verifrt.Assert(d.offset >= start && d.offset <= len(src), "a Deserializer primitive moved the offset outside the input")
	n, err := d.Done()
	if err == nil {
		verifrt.Cover("ok")
		verifrt.Assert(n <= len(src), "more consumed bytes reported than were supplied")
	} else {
		verifrt.Cover("error")
	}
}

// ---------------------------------------------------------------------------------------------------------
// C03: documented wire layout (forward) and canonical bytes (reverse)

//verif:h prop=C03 p.maxlen=3/6 cover=num,bool,prefix
func H_C03_layout() {
	switch verifrt.Choose("kind", 4) {
	case 0:
		v := verifrt.U64("v")
		w := [4]int{1, 2, 4, 8}[verifrt.Choose("width", 4)]
		var enc []byte
		switch w {
		case 1:
			enc, _ = NewSerializer().WriteNum(uint8(v), c01Err).Serialize()
		case 2:
			enc, _ = NewSerializer().WriteNum(uint16(v), c01Err).Serialize()
		case 4:
			enc, _ = NewSerializer().WriteNum(int32(v), c01Err).Serialize()
		case 8:
			enc, _ = NewSerializer().WriteNum(v, c01Err).Serialize()
		}
		verifrt.Assert(bytes.Equal(enc, c01LE(v, w)), "fixed-width numbers are not little-endian")
		verifrt.Cover("num")
	case 1:
		v := verifrt.Bool("v")
		enc, _ := NewSerializer().WriteBool(v, c01Err).Serialize()
		want := byte(0)
		if v {
			want = 1
		}
		verifrt.Assert(len(enc) == 1 && enc[0] == want, "booleans are not encoded as 0/1")
		verifrt.Cover("bool")
	case 2, 3:
		data := verifrt.Bytes("data", verifrt.Param("maxlen", 3))
		p := c01Prefixes[verifrt.Choose("prefix", 3)]
		enc, err := NewSerializer().WriteVariableByteSlice(data, p, c01Err, 0, 0).Serialize()
		want := append(c01LE(uint64(len(data)), c01PrefixWidth(p)), data...)
		verifrt.Assert(err == nil && bytes.Equal(enc, want), "a variable byte slice is not (length prefix of the configured width, little endian) followed by the bytes")
		verifrt.Cover("prefix")
	}
}

// c03Fixed: the fixed-width readers on 32 / 8 arbitrary bytes. The re-encoding is compared with the input as it
// was before the call and as the caller sees it afterwards (a decoder that rewrites its input makes the two differ).
func c03Fixed(kind int) {
	switch kind {
	case 3:
		b := verifrt.BytesN("b", 32)
		before := append([]byte(nil), b...)
		var v *big.Int
		n, err := NewDeserializer(b).ReadUint256(&v, c01Err).Done()
		verifrt.Assert(err == nil && n == 32, "ReadUint256 rejected 32 bytes")
		enc, eerr := NewSerializer().WriteUint256(v, c01Err).Serialize()
		verifrt.Assert(eerr == nil && bytes.Equal(enc, before), "re-encoding the uint256 read from 32 bytes differs from those bytes")
		verifrt.Assert(bytes.Equal(b, before), "ReadUint256 modified its input: the caller's bytes differ from the re-encoding of the decoded value")
		verifrt.Cover("uint256")
	case 4:
		b := verifrt.BytesN("b", 8)
		before := append([]byte(nil), b...)
		var t time.Time
		n, err := NewDeserializer(b).ReadTime(&t, c01Err).Done()
		verifrt.Assert(err == nil && n == 8, "ReadTime rejected 8 bytes")
		enc, eerr := NewSerializer().WriteTime(t, c01Err).Serialize()
		verifrt.Assert(eerr == nil && len(enc) == 8, "WriteTime failed")
		if binary.LittleEndian.Uint64(before) <= math.MaxInt64 {
			// inside the int64-nanosecond range: canonical
			verifrt.Assert(bytes.Equal(enc, before), "a time stamp inside the int64-nanosecond range does not re-encode to the bytes it was read from")
			verifrt.Cover("time")
		} else {
			verifrt.Cover("time-saturated")
		}
		verifrt.Assert(bytes.Equal(b, before), "ReadTime modified its input")
	}
}

// H_C03_time: forward layout of time stamps: little-endian uint64 nanoseconds, negative times as 0.
//
//verif:h prop=C03 cover=positive,negative
func H_C03_time() {
	ns := verifrt.I64("ns")
	enc, err := NewSerializer().WriteTime(time.Unix(0, ns), c01Err).Serialize()
	verifrt.Assert(err == nil && len(enc) == 8, "WriteTime failed")
	want := uint64(0)
	if ns >= 0 {
		want = uint64(ns)
		verifrt.Cover("positive")
	} else {
		verifrt.Cover("negative")
	}
	verifrt.Assert(binary.LittleEndian.Uint64(enc) == want, "WriteTime does not produce the nanosecond count as a little-endian uint64 (0 for times before the epoch)")
	// and the round trip (C01) for times inside the range
	var back time.Time
	n, derr := NewDeserializer(enc).ReadTime(&back, c01Err).Done()
	verifrt.Assert(derr == nil && n == 8, "ReadTime(WriteTime(t)) failed")
	if ns >= 0 {
		verifrt.Assert(back.UnixNano() == ns, "ReadTime(WriteTime(t)) differs from t")
	}
}

// H_C01_slicelen: the length prefix of every collection, for every length (symbolic) and prefix width: either an
// error, or the prefix reads back as the same length and exactly the prefix is consumed.
//
//verif:h prop=C01 cover=byte,uint16,uint32,toolong
func H_C01_slicelen() {
	l := verifrt.Int("l")
	verifrt.Assume(l >= 0)
	k := verifrt.Choose("prefix", 3)
	p := c01Prefixes[k]
	limit := []int{math.MaxUint8, math.MaxUint16, math.MaxUint32}[k]
	s := NewSerializer()
	s.writeSliceLength(l, p, c01Err)
	enc, err := s.Serialize()
	if l > limit {
		verifrt.Cover("toolong")
		verifrt.Assert(err != nil, "a collection length that does not fit its length prefix was encoded (it wraps)")

		return
	}
	verifrt.Cover([]string{"byte", "uint16", "uint32"}[k])
	verifrt.Assert(err == nil && len(enc) == []int{1, 2, 4}[k], "a representable collection length was refused or has the wrong prefix width")
	d := NewDeserializer(enc)
	got, derr := d.readSliceLength(p, c01Err)
	verifrt.Assert(derr == nil && got == l && d.offset == len(enc), "the length prefix does not read back as the length that was written")
}

// H_C03_canonical: whatever byte string the validating reader accepts re-encodes to exactly the consumed bytes.
//
//verif:h prop=C03 p.maxlen=4/6 cover=bool,slice,sequence,rejected,uint256,time,time-saturated steps=600000 runs=3000000 timeout=900/900
func H_C03_canonical() {
	kind := verifrt.Choose("kind", 5)
	if kind >= 3 {
		c03Fixed(kind)

		return
	}
	b := verifrt.Bytes("b", verifrt.Param("maxlen", 4))
	switch kind {
	case 0:
		var v bool
		n, err := NewDeserializer(b).ReadBool(&v, c01Err).Done()
		if err != nil {
			verifrt.Cover("rejected")

			return
		}
		enc, eerr := NewSerializer().WriteBool(v, c01Err).Serialize()
		verifrt.Assert(eerr == nil && bytes.Equal(enc, b[:n]), "ReadBool accepted a byte string that is not the canonical encoding of the decoded value")
		verifrt.Cover("bool")
	case 1:
		p := c01Prefixes[verifrt.Choose("prefix", 3)]
		minLen, maxLen := verifrt.Choose("min", 3), verifrt.Choose("max", 3)
		var v []byte
		n, err := NewDeserializer(b).ReadVariableByteSlice(&v, p, c01Err, minLen, maxLen).Done()
		if err != nil {
			verifrt.Cover("rejected")

			return
		}
		enc, eerr := NewSerializer().WriteVariableByteSlice(v, p, c01Err, minLen, maxLen).Serialize()
		verifrt.Assert(eerr == nil && bytes.Equal(enc, b[:n]), "ReadVariableByteSlice accepted bytes whose re-encoding fails or differs from the consumed bytes")
		verifrt.Cover("slice")
	case 2: // sequence of 1-byte items under array rules, every validation-mode combination
		p := c01Prefixes[verifrt.Choose("prefix", 2)]
		rules := &ArrayRules{Min: uint(verifrt.Choose("min", 2)), Max: uint(verifrt.Choose("max", 3))}
		if verifrt.Choose("nodups", 2) == 1 {
			rules.ValidationMode |= ArrayValidationModeNoDuplicates
		}
		if verifrt.Choose("lexical", 2) == 1 {
			rules.ValidationMode |= ArrayValidationModeLexicalOrdering
		}
		var items [][]byte
		n, err := NewDeserializer(b).ReadSequenceOfObjects(func(x []byte) (int, error) {
			if len(x) < 1 {
				return 0, ErrDeserializationNotEnoughData
			}
			items = append(items, []byte{x[0]})

			return 1, nil
		}, DeSeriModePerformValidation, p, rules, c01Err).Done()
		if err != nil {
			verifrt.Cover("rejected")

			return
		}
		enc, eerr := NewSerializer().WriteSliceOfByteSlices(items, DeSeriModePerformValidation|DeSeriModePerformLexicalOrdering, p, rules, c01Err).Serialize()
		verifrt.Assert(eerr == nil && bytes.Equal(enc, b[:n]), "the validating sequence reader accepted bytes whose re-encoding (with validation) fails or differs from the consumed bytes")
		verifrt.Cover("sequence")
	}
}
