//verif:pkg ds/ringbuffer
package ringbuffer

import "verifrt"

// Property C12 (RingBuffer): overwrite-oldest ring; ToSlice lists newest first.
// IND over the representation (DESIGN.md Appendix A.5).

//verif:h prop=C12 p.maxcap=3/4 cover=add-room,add-overwrite
func H_C12_ringbuffer_step() {
	capacity := 1 + verifrt.Choose("cap", verifrt.Param("maxcap", 3))
	r := NewRingBuffer[uint8](capacity)
	r.pos = verifrt.Int("pos")
	r.size = verifrt.Int("size")
	verifrt.Assume(r.pos >= 0 && r.pos < capacity && r.size >= 0 && r.size <= capacity)
	verifrt.Assume(r.size == capacity || r.pos == r.size)
	for i := range r.buffer {
		r.buffer[i] = verifrt.U8("e")
	}
	var abs []uint8 // newest first
	for i := 0; i < r.size; i++ {
		abs = append(abs, r.buffer[((r.pos-1-i)%capacity+capacity)%capacity])
	}
	got := r.ToSlice()
	verifrt.Assert(len(got) == len(abs), "RingBuffer.ToSlice: wrong length")
	for i := range got {
		if i < len(abs) {
			verifrt.Assert(got[i] == abs[i], "RingBuffer.ToSlice is not newest-first")
		}
	}
	e := verifrt.U8("new")
	verifrt.Assert(r.Add(e), "RingBuffer.Add reports failure")
	if len(abs) == capacity {
		verifrt.Cover("add-overwrite")
		abs = append([]uint8{e}, abs[:capacity-1]...)
	} else {
		verifrt.Cover("add-room")
		abs = append([]uint8{e}, abs...)
	}
	got = r.ToSlice()
	verifrt.Assert(len(got) == len(abs), "RingBuffer: wrong length after Add")
	for i := range got {
		if i < len(abs) {
			verifrt.Assert(got[i] == abs[i], "RingBuffer: after Add the contents are not (new, then the previous ones without the oldest)")
		}
	}
	verifrt.Assert(r.pos >= 0 && r.pos < capacity && r.size <= capacity && (r.size == capacity || r.pos == r.size), "RingBuffer: representation invariant broken")
}
