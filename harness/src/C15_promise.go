//verif:pkg runtime/promise
package promise

import (
	"sync"
	"sync/atomic"

	"verifrt"
)

// Property C15 (promise events): one-shot events run every callback exactly once whether it was registered
// before, during or after Trigger.

//verif:h prop=C15 preempt=2/3 cover=done,unsubscribed runs=5000000 timeout=900/900
func H_C15_promise() {
	withArg := verifrt.Choose("withArg", 2) == 1
	var calls [3]atomic.Int32
	var args [3]atomic.Int32
	var on func(k int) func()
	var trigger func(v int) bool
	if withArg {
		e := NewEvent1[int]()
		on = func(k int) func() { return e.OnTrigger(func(a int) { calls[k].Add(1); args[k].Store(int32(a)) }) }
		trigger = func(v int) bool { return e.Trigger(v) }
	} else {
		e := NewEvent()
		on = func(k int) func() { return e.OnTrigger(func() { calls[k].Add(1); args[k].Store(7) }) }
		trigger = func(int) bool { return e.Trigger() }
	}
	unsub := on(0) // registered before
	unsubscribed := verifrt.Choose("unsubscribeFirst", 2) == 1
	if unsubscribed {
		unsub()
		verifrt.Cover("unsubscribed")
	}
	var wg sync.WaitGroup
	var won [2]bool
	wg.Add(3)
	go func() { defer wg.Done(); verifrt.MustFinish(); on(1) }() // registered during
	go func() { defer wg.Done(); verifrt.MustFinish(); won[0] = trigger(7) }()
	go func() { defer wg.Done(); verifrt.MustFinish(); won[1] = trigger(7) }()
	verifrt.MustFinish()
	wg.Wait()
	on(2) // registered after
	verifrt.Cover("done")
	verifrt.Assert(won[0] != won[1], "exactly one of two concurrent Trigger calls must report that it triggered the event")
	for k := 0; k < 3; k++ {
		want := int32(1)
		if k == 0 && unsubscribed {
			want = 0
		}
		verifrt.Assert(calls[k].Load() == want, "a promise callback was not run exactly once")
		if want == 1 {
			verifrt.Assert(args[k].Load() == 7, "a promise callback received a wrong argument")
		}
	}
}

// H_C15_promise_hist: sequential histories: three callbacks registered, any subset unsubscribed (in any of two
// orders), then Trigger: exactly the callbacks that are still registered run once.
//
//verif:h prop=C15 cover=done
func H_C15_promise_hist() {
	withArg := verifrt.Choose("withArg", 2) == 1
	var calls [3]int
	var on func(k int) func()
	var trigger func()
	if withArg {
		e := NewEvent1[int]()
		on = func(k int) func() { return e.OnTrigger(func(int) { calls[k]++ }) }
		trigger = func() { e.Trigger(1) }
	} else {
		e := NewEvent()
		on = func(k int) func() { return e.OnTrigger(func() { calls[k]++ }) }
		trigger = func() { e.Trigger() }
	}
	var unsub [3]func()
	var gone [3]bool
	for k := 0; k < 3; k++ {
		unsub[k] = on(k)
		// unsubscribe an earlier callback between two registrations
		if k > 0 && verifrt.Choose("unsubEarlier", 2) == 1 && !gone[k-1] {
			unsub[k-1]()
			gone[k-1] = true
		}
	}
	for k := 0; k < 3; k++ {
		if !gone[k] && verifrt.Choose("unsub", 2) == 1 {
			unsub[k]()
			gone[k] = true
		}
	}
	trigger()
	for k := 0; k < 3; k++ {
		want := 1
		if gone[k] {
			want = 0
		}
		verifrt.Assert(calls[k] == want, "after unsubscribing some callbacks, Trigger did not run exactly the remaining ones once")
	}
	verifrt.Cover("done")
}
