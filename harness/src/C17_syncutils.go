//verif:pkg runtime/syncutils
package syncutils

import (
	"sync"
	"sync/atomic"

	"verifrt"
)

// Property C17: Starving/DAG mutexes: exclusion, no lost wake-up; Counter/Stack condition waits.
//
// Scripts of 2 (3) goroutines with 1..2 lock/unlock pairs each are executed under every interleaving within
// the pre-emption bound. Ghost holder counters check exclusion inside every critical section; a lost wake-up
// ends the run in the deadlock detector (every goroutine is must-finish).

type c17Ghost struct {
	writers, readers atomic.Int32
}

func (g *c17Ghost) enterW() {
	w := g.writers.Add(1)
	verifrt.Assert(w == 1, "write lock granted while another writer holds the lock")
	verifrt.Assert(g.readers.Load() == 0, "write lock granted while a reader holds the lock")
}
func (g *c17Ghost) exitW() { g.writers.Add(-1) }
func (g *c17Ghost) enterR() {
	g.readers.Add(1)
	verifrt.Assert(g.writers.Load() == 0, "read lock granted while a writer holds the lock")
}
func (g *c17Ghost) exitR() { g.readers.Add(-1) }

//verif:h prop=C17 p.threads=2/3 p.pairs=2/2 preempt=3/3 cover=done runs=5000000 timeout=900/900 steps=200000
func H_C17_starving() {
	m := NewStarvingMutex()
	g := &c17Ghost{}
	nT := verifrt.Param("threads", 2)
	nP := verifrt.Param("pairs", 2)
	var wg sync.WaitGroup
	for t := 0; t < nT; t++ {
		pairs := 1 + verifrt.Choose("pairs", nP)
		var kinds []bool
		for p := 0; p < pairs; p++ {
			kinds = append(kinds, verifrt.Choose("write", 2) == 1)
		}
		wg.Add(1)
		go func() {
			defer wg.Done()
			verifrt.MustFinish()
			for _, w := range kinds {
				if w {
					m.Lock()
					g.enterW()
					g.exitW()
					m.Unlock()
				} else {
					m.RLock()
					g.enterR()
					g.exitR()
					m.RUnlock()
				}
			}
		}()
	}
	wg.Wait()
	verifrt.Cover("done")
	verifrt.Assert(m.readersActive == 0 && !m.writerActive && m.pendingWriters == 0, "StarvingMutex state not back to idle after all holders released")
}

//verif:h prop=C17 p.threads=2/3 preempt=2/3 cover=done runs=5000000 timeout=900/900 steps=300000
func H_C17_dag() {
	d := NewDAGMutex[int]()
	g := [2]*c17Ghost{{}, {}}
	nT := verifrt.Param("threads", 2)
	var wg sync.WaitGroup
	for t := 0; t < nT; t++ {
		// acyclic use: read-lock entity 0 (the "parent"), then write-lock entity 1 (the "child"); or a single entity
		mode := verifrt.Choose("mode", 4)
		wg.Add(1)
		go func() {
			defer wg.Done()
			verifrt.MustFinish()
			switch mode {
			case 0: // RLock(0) then Lock(1)
				d.RLock(0)
				g[0].enterR()
				d.Lock(1)
				g[1].enterW()
				g[1].exitW()
				d.Unlock(1)
				g[0].exitR()
				d.RUnlock(0)
			case 1: // Lock(0)
				d.Lock(0)
				g[0].enterW()
				g[0].exitW()
				d.Unlock(0)
			case 2: // RLock(0,1)
				d.RLock(0, 1)
				g[0].enterR()
				g[1].enterR()
				g[1].exitR()
				g[0].exitR()
				d.RUnlock(0, 1)
			case 3: // Lock(1) twice in a row
				d.Lock(1)
				g[1].enterW()
				g[1].exitW()
				d.Unlock(1)
				d.Lock(1)
				g[1].enterW()
				g[1].exitW()
				d.Unlock(1)
			}
		}()
	}
	wg.Wait()
	verifrt.Cover("done")
	verifrt.Assert(d.mutexes.Size() == 0 && d.consumerCounter.Size() == 0, "DAGMutex keeps entities registered after every holder released")
}

// H_C17_unheld: unlocking something that is not held panics or leaves the state untouched.
//
//verif:h prop=C17 cover=runlock-panics,dag-panics,unlock-unchanged
func H_C17_unheld() {
	panics := func(f func()) (p bool) {
		defer func() {
			if recover() != nil {
				p = true
			}
		}()
		f()

		return false
	}
	switch verifrt.Choose("case", 6) {
	case 0:
		m := NewStarvingMutex()
		verifrt.Assert(panics(m.RUnlock), "StarvingMutex.RUnlock without RLock must panic")
		verifrt.Cover("runlock-panics")
	case 1:
		m := NewStarvingMutex()
		m.Lock()
		verifrt.Assert(panics(m.RUnlock), "StarvingMutex.RUnlock while a writer holds the lock must panic")
	case 2:
		m := NewStarvingMutex()
		m.RLock()
		verifrt.Assert(panics(m.Unlock), "StarvingMutex.Unlock while readers hold the lock must panic")
		verifrt.Assert(m.readersActive == 1 && !m.writerActive, "a rejected Unlock corrupted the state")
	case 3:
		m := NewStarvingMutex()
		if !panics(m.Unlock) {
			verifrt.Assert(m.readersActive == 0 && !m.writerActive && m.pendingWriters == 0, "Unlock of an idle StarvingMutex corrupted its state")
		}
		verifrt.Cover("unlock-unchanged")
		m.Lock() // still usable
		m.Unlock()
	case 4:
		d := NewDAGMutex[int]()
		verifrt.Assert(panics(func() { d.Unlock(7) }), "DAGMutex.Unlock of an entity that is not held must panic")
		verifrt.Cover("dag-panics")
	case 5:
		d := NewDAGMutex[int]()
		verifrt.Assert(panics(func() { d.RUnlock(7) }), "DAGMutex.RUnlock of an entity that is not held must panic")
	}
}

// H_C17_counter: WaitIsZero / WaitIsBelow / WaitIsAbove return only if the condition held at some instant
// since the call, and do return when the condition holds for good (otherwise: deadlock detector).
//
//verif:h prop=C17 p.updates=2/3 preempt=2/3 cover=returned runs=5000000 timeout=900/900 steps=300000
func H_C17_counter() {
	c := NewCounter()
	type sample struct{ stamp, value int }
	hist := []sample{{verifrt.Stamp(), 0}}
	c.Subscribe(func(_, newValue int) { hist = append(hist, sample{verifrt.Stamp(), newValue}) }) // runs under valueMutex
	start := verifrt.Choose("start", 3)                                                           // initial value 0..2
	c.Set(start)
	kind := verifrt.Choose("wait", 3)
	threshold := 1 + verifrt.Choose("threshold", 2)
	cond := func(v int) bool {
		switch kind {
		case 0:
			return v == 0 || v < 1
		case 1:
			return v < threshold
		}

		return v > threshold
	}
	// the updater's script ends in a value that satisfies the condition, so the waiter must return
	nU := verifrt.Param("updates", 2)
	var deltas []int
	v := start
	for i := 0; i < nU; i++ {
		d := 1 - 2*verifrt.Choose("down", 2)
		deltas = append(deltas, d)
		v += d
	}
	verifrt.Assume(cond(v))
	viaSet := verifrt.Choose("viaSet", 2) == 1
	var wg sync.WaitGroup
	wg.Add(2)
	var callStamp, retStamp int
	go func() {
		defer wg.Done()
		verifrt.MustFinish()
		callStamp = verifrt.Stamp()
		switch kind {
		case 0:
			c.WaitIsZero()
		case 1:
			c.WaitIsBelow(threshold)
		case 2:
			c.WaitIsAbove(threshold)
		}
		retStamp = verifrt.Stamp()
	}()
	go func() {
		defer wg.Done()
		verifrt.MustFinish()
		running := start
		for _, d := range deltas {
			running += d
			if viaSet {
				c.Set(running) // the absolute setter must wake the same waiters as the relative one
			} else {
				c.Update(d)
			}
		}
	}()
	wg.Wait()
	// the condition held at some instant in [call, return]: the value current at the call, or a later one
	held := false
	cur := 0
	for _, s := range hist {
		if s.stamp <= callStamp {
			cur = s.value
		} else if s.stamp <= retStamp && cond(s.value) {
			held = true
		}
	}
	verifrt.Assert(held || cond(cur), "a Counter wait returned although its condition never held since the call")
	verifrt.Cover("returned")
}

// H_C17_stack: PopOrWait / WaitIsEmpty on syncutils.Stack.
//
//verif:h prop=C17 preempt=2/3 cover=popped,empty runs=5000000 timeout=900/900 steps=300000
func H_C17_stack() {
	s := NewStack[int]()
	pre := verifrt.Choose("prefill", 2)
	for i := 0; i < pre; i++ {
		s.Push(100 + i)
	}
	var wg sync.WaitGroup
	wg.Add(3)
	var got int
	var ok bool
	go func() { // consumer
		defer wg.Done()
		verifrt.MustFinish()
		got, ok = s.PopOrWait(func() bool { return true })
	}()
	go func() { // producer: guarantees that something can be popped
		defer wg.Done()
		verifrt.MustFinish()
		s.Push(1)
	}()
	go func() { // drains the rest and then waits for empty
		defer wg.Done()
		verifrt.MustFinish()
		if pre == 1 {
			s.PopOrWait(func() bool { return true })
		}
		s.WaitIsEmpty()
		verifrt.Cover("empty")
	}()
	wg.Wait()
	verifrt.Assert(ok && (got == 1 || got == 100), "Stack.PopOrWait returned without an element although one was pushed")
	verifrt.Assert(s.Size() == 0, "Stack not empty after all elements were popped")
	verifrt.Cover("popped")
}

// H_C17_stack_waiters: several goroutines wait for the stack to become empty (or to shrink below a
// threshold); one removal through Pop or PopOrWait must release all of them.
//
//verif:h prop=C17 preempt=2/3 cover=released runs=5000000 timeout=900/900 steps=300000
func H_C17_stack_waiters() {
	s := NewStack[int]()
	s.Push(1)
	var wg sync.WaitGroup
	wg.Add(3)
	for k := 0; k < 2; k++ {
		below := verifrt.Choose("below", 2) == 1
		go func() {
			defer wg.Done()
			verifrt.MustFinish()
			if below {
				s.WaitSizeIsBelow(1)
			} else {
				s.WaitIsEmpty()
			}
		}()
	}
	viaPopOrWait := verifrt.Choose("popOrWait", 2) == 1
	go func() {
		defer wg.Done()
		verifrt.MustFinish()
		if viaPopOrWait {
			s.PopOrWait(func() bool { return true })
		} else {
			s.Pop()
		}
	}()
	wg.Wait()
	verifrt.Cover("released")
	verifrt.Assert(s.Size() == 0, "Stack not empty after the element was popped")
}

// H_C17_counter_waiters: two goroutines wait on the same Counter condition; one update releases both.
//
//verif:h prop=C17 preempt=2/3 cover=released runs=5000000 timeout=900/900 steps=300000
func H_C17_counter_waiters() {
	c := NewCounter()
	c.Set(1)
	above := verifrt.Choose("above", 2) == 1
	var wg sync.WaitGroup
	wg.Add(3)
	for k := 0; k < 2; k++ {
		go func() {
			defer wg.Done()
			verifrt.MustFinish()
			if above {
				c.WaitIsAbove(1)
			} else {
				c.WaitIsZero()
			}
		}()
	}
	go func() {
		defer wg.Done()
		verifrt.MustFinish()
		if above {
			c.Increase()
		} else {
			c.Decrease()
		}
	}()
	wg.Wait()
	verifrt.Cover("released")
}
