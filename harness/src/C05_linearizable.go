//verif:pkg kvstore/mapdb
package mapdb

import (
	"sync"

	"verifrt"

	"github.com/iotaledger/hive.go/kvstore"
	"github.com/iotaledger/hive.go/kvstore/flushkv"
)

// Property C05: KVStore operations are linearizable under concurrent use.
//
// Two (three) goroutines run short scripts of operations on two views (root and WithRealm(0x01)) of one store.
// All interleavings within the pre-emption bound are explored by the engine; at the end the recorded results
// must be explained by some linearization consistent with program order and real-time order (ghost stamps).
// Deadlocks and data races are detected by the engine itself.

const (
	c05Get = iota
	c05Has
	c05Set
	c05Delete
	c05DeletePrefix
	c05Clear
	c05Iterate
	c05Batch
	c05Kinds
)

type c05Op struct {
	kind     int
	onView   bool
	deep     bool // root view only: address the key through its full path {1,key}, i.e. the same entry as the realm view
	key      byte
	val      byte
	inv, res int
	thread   int
	// observed
	gotVal   []byte
	gotOK    bool
	gotKeys  []string
	gotVals  []byte
	withVals bool
}

// c05Action is one atomic step of an operation (a batch commit has one per key).
type c05Action struct {
	op    *c05Op
	piece int
	done  bool
}

func c05Full(onView bool, k ...byte) string {
	if onView {
		return string(append([]byte{1}, k...))
	}

	return string(k)
}

func c05HasPrefix(s, p string) bool { return len(s) >= len(p) && s[:len(p)] == p }

func c05SortedKeys(m map[string]byte, prefix string, strip int) []string {
	var ks []string
	for k := range m {
		if c05HasPrefix(k, prefix) {
			ks = append(ks, k)
		}
	}
	for i := 1; i < len(ks); i++ {
		for j := i; j > 0 && ks[j] < ks[j-1]; j-- {
			ks[j], ks[j-1] = ks[j-1], ks[j]
		}
	}
	for i := range ks {
		ks[i] = ks[i][strip:]
	}

	return ks
}

// apply performs the action on the model and reports whether the observed result is explained.
func (a *c05Action) apply(m map[string]byte) bool {
	o := a.op
	full := c05Full(o.onView || o.deep, o.key)
	switch o.kind {
	case c05Get:
		v, ok := m[full]

		return ok == o.gotOK && (!ok || (len(o.gotVal) == 1 && o.gotVal[0] == v))
	case c05Has:
		_, ok := m[full]

		return ok == o.gotOK
	case c05Set:
		m[full] = o.val
	case c05Delete:
		delete(m, full)
	case c05DeletePrefix:
		for k := range m {
			if c05HasPrefix(k, full) {
				delete(m, k)
			}
		}
	case c05Clear:
		for k := range m {
			if c05HasPrefix(k, c05Full(o.onView)) {
				delete(m, k)
			}
		}
	case c05Iterate:
		strip := 0
		if o.onView {
			strip = 1
		}
		want := c05SortedKeys(m, c05Full(o.onView), strip)
		if len(want) != len(o.gotKeys) {
			return false
		}
		for i := range want {
			if want[i] != o.gotKeys[i] {
				return false
			}
			if o.withVals && m[c05Full(o.onView)+want[i]] != o.gotVals[i] {
				return false
			}
		}
	case c05Batch:
		// piece 0: Set(key,val); piece 1: Delete(other key)
		if a.piece == 0 {
			m[full] = o.val
		} else {
			delete(m, c05Full(o.onView || o.deep, 3-o.key))
		}
	}

	return true
}

func c05Copy(m map[string]byte) map[string]byte {
	c := make(map[string]byte, len(m))
	for k, v := range m {
		c[k] = v
	}

	return c
}

// c05Linearizable searches for an order of the actions that respects program order and real time and explains
// every observed result.
func c05Linearizable(acts []*c05Action, m map[string]byte) bool {
	remaining := 0
	for _, a := range acts {
		if !a.done {
			remaining++
		}
	}
	if remaining == 0 {
		return true
	}
	for _, a := range acts {
		if a.done {
			continue
		}
		ready := true
		for _, b := range acts {
			if b.done || b.op == a.op {
				continue
			}
			// b must come first if it returned before a was invoked, or precedes a in the same thread
			if b.op.res < a.op.inv || (b.op.thread == a.op.thread && b.op.inv < a.op.inv) {
				ready = false

				break
			}
		}
		if !ready {
			continue
		}
		m2 := c05Copy(m)
		if !a.apply(m2) {
			continue
		}
		a.done = true
		if c05Linearizable(acts, m2) {
			a.done = false

			return true
		}
		a.done = false
	}

	return false
}

func c05Run(s kvstore.KVStore, o *c05Op) {
	o.inv = verifrt.Stamp()
	k := []byte{o.key}
	if o.deep {
		k = []byte{1, o.key}
	}
	switch o.kind {
	case c05Get:
		v, err := s.Get(k)
		o.gotVal, o.gotOK = v, err == nil
	case c05Has:
		o.gotOK, _ = s.Has(k)
	case c05Set:
		s.Set(k, []byte{o.val})
	case c05Delete:
		s.Delete(k)
	case c05DeletePrefix:
		s.DeletePrefix(k)
	case c05Clear:
		s.Clear()
	case c05Iterate:
		if o.val%2 == 0 {
			s.IterateKeys(kvstore.EmptyPrefix, func(key []byte) bool {
				o.gotKeys = append(o.gotKeys, string(key))

				return true
			})
		} else {
			o.withVals = true
			s.Iterate(kvstore.EmptyPrefix, func(key, value []byte) bool {
				o.gotKeys = append(o.gotKeys, string(key))
				o.gotVals = append(o.gotVals, value[0])

				return true
			})
		}
	case c05Batch:
		b, _ := s.Batched()
		b.Set(k, []byte{o.val})
		if o.deep {
			b.Delete([]byte{1, 3 - o.key})
		} else {
			b.Delete([]byte{3 - o.key})
		}
		b.Commit()
	}
	o.res = verifrt.Stamp()
}

func c05Script(thread, n int, readsAfter bool) []*c05Op {
	var ops []*c05Op
	onView := verifrt.Choose("onView", 2) == 1
	for i := 0; i < n; i++ {
		o := &c05Op{thread: thread, onView: onView, val: byte(10*thread + i + 1)}
		if i > 0 && readsAfter {
			// later operations of a script observe: Get(1), Get(2) or IterateKeys
			switch verifrt.Choose("read", 3) {
			case 0:
				o.kind, o.key = c05Get, 1
			case 1:
				o.kind, o.key = c05Get, 2
			case 2:
				o.kind = c05Iterate
			}
		} else {
			o.kind = verifrt.Choose("kind", c05Kinds)
			o.key = byte(1 + verifrt.Choose("key", 2))
		}
		ops = append(ops, o)
	}

	return ops
}

//verif:h prop=C05 p.ops0=1/2 p.ops1=1/1 p.flush=1/1 p.prefill=1/2 preempt=2/2 cover=linearized runs=30000000 timeout=900/900 steps=400000
func H_C05_linearizable() {
	root := NewMapDB()
	store := kvstore.KVStore(root)
	if verifrt.Choose("flush", verifrt.Param("flush", 1)) == 1 {
		store = flushkv.New(root)
	}
	view, _ := store.WithRealm(append(make([]byte, 0, 8), 1)) // spare capacity: appending to it would alias
	model := map[string]byte{}
	// pre-fill: key "\x01\x02" (visible in both views) and optionally "\x02"
	store.Set([]byte{1, 2}, []byte{90})
	model[string([]byte{1, 2})] = 90
	if verifrt.Choose("prefill2", verifrt.Param("prefill", 1)) == 1 {
		store.Set([]byte{2}, []byte{91})
		model[string([]byte{2})] = 91
	}
	var scripts [][]*c05Op
	scripts = append(scripts, c05Script(0, verifrt.Param("ops0", 1), true))
	scripts = append(scripts, c05Script(1, verifrt.Param("ops1", 1), true))
	var wg sync.WaitGroup
	for t := range scripts {
		wg.Add(1)
		go func(ops []*c05Op) {
			defer wg.Done()
			verifrt.MustFinish()
			for _, o := range ops {
				s := store
				if o.onView {
					s = view
				}
				c05Run(s, o)
			}
		}(scripts[t])
	}
	wg.Wait()
	var acts []*c05Action
	for _, sc := range scripts {
		for _, o := range sc {
			acts = append(acts, &c05Action{op: o})
			if o.kind == c05Batch {
				acts = append(acts, &c05Action{op: o, piece: 1})
			}
		}
	}
	verifrt.Assert(c05Linearizable(acts, model), "no linearization explains the observed results of the concurrent operations")
	verifrt.Cover("linearized")
}

// H_C05_snapshot: an Iterate (with values) running against a goroutine that performs two writes must report a
// set of entries that existed together at one instant.
//
//verif:h prop=C05 preempt=2/3 cover=snapshot runs=30000000 timeout=900/900 steps=400000
func H_C05_snapshot() {
	root := NewMapDB()
	store := kvstore.KVStore(root)
	view, _ := store.WithRealm(append(make([]byte, 0, 8), 1))
	model := map[string]byte{}
	store.Set([]byte{1, 1}, []byte{90})
	store.Set([]byte{1, 2}, []byte{91})
	model[string([]byte{1, 1})] = 90
	model[string([]byte{1, 2})] = 91
	reader := &c05Op{kind: c05Iterate, thread: 0, onView: verifrt.Choose("readerOnView", 2) == 1, val: 1}
	var writes []*c05Op
	for i := 0; i < 2; i++ {
		o := &c05Op{thread: 1, onView: true, val: byte(20 + i), key: byte(1 + verifrt.Choose("key", 2))}
		if verifrt.Choose("delete", 2) == 1 {
			o.kind = c05Delete
		} else {
			o.kind = c05Set
		}
		writes = append(writes, o)
	}
	var wg sync.WaitGroup
	wg.Add(2)
	go func() {
		defer wg.Done()
		verifrt.MustFinish()
		s := store
		if reader.onView {
			s = view
		}
		c05Run(s, reader)
	}()
	go func() {
		defer wg.Done()
		verifrt.MustFinish()
		for _, o := range writes {
			c05Run(view, o)
		}
	}()
	wg.Wait()
	acts := []*c05Action{{op: reader}, {op: writes[0]}, {op: writes[1]}}
	verifrt.Assert(c05Linearizable(acts, model), "Iterate reported entries that never existed together at one instant")
	verifrt.Cover("snapshot")
}

// H_C05_samekey: the root view and the realm view address the SAME entries (the root through the full key), so
// that operations on one entry really race through two views (the per-view mutex does not serialise them): one
// operation per goroutine plus final reads.
//
//verif:h prop=C05 preempt=2/3 cover=linearized runs=30000000 timeout=900/900 steps=400000
func H_C05_samekey() {
	root := NewMapDB()
	store := kvstore.KVStore(root)
	view, _ := store.WithRealm(append(make([]byte, 0, 8), 1))
	model := map[string]byte{}
	store.Set([]byte{1, 1}, []byte{90})
	model[string([]byte{1, 1})] = 90
	kinds := []int{c05Get, c05Has, c05Set, c05Delete, c05DeletePrefix, c05Batch, c05Iterate}
	a := &c05Op{thread: 0, deep: true, kind: kinds[verifrt.Choose("kindA", 6)], key: byte(1 + verifrt.Choose("keyA", 2)), val: 11}
	b := &c05Op{thread: 1, onView: true, kind: kinds[verifrt.Choose("kindB", 7)], key: byte(1 + verifrt.Choose("keyB", 2)), val: 21}
	var wg sync.WaitGroup
	wg.Add(2)
	go func() { defer wg.Done(); verifrt.MustFinish(); c05Run(store, a) }()
	go func() { defer wg.Done(); verifrt.MustFinish(); c05Run(view, b) }()
	wg.Wait()
	f1 := &c05Op{thread: 2, onView: true, kind: c05Get, key: 1}
	f2 := &c05Op{thread: 2, onView: true, kind: c05Get, key: 2}
	c05Run(view, f1)
	c05Run(view, f2)
	acts := []*c05Action{{op: a}, {op: b}, {op: f1}, {op: f2}}
	if a.kind == c05Batch {
		acts = append(acts, &c05Action{op: a, piece: 1})
	}
	if b.kind == c05Batch {
		acts = append(acts, &c05Action{op: b, piece: 1})
	}
	verifrt.Assert(c05Linearizable(acts, model), "no linearization explains two operations on the same entries through two views")
	verifrt.Cover("linearized")
}

// H_C05_prefix: DeletePrefix / Clear through one view against TWO writes through the other (a fresh key, then an
// existing one), on the plain store or through the flushkv wrapper: the final contents must be those of some
// linearization (DeletePrefix is atomic).
//
//verif:h prop=C05 preempt=2/3 cover=linearized runs=30000000 timeout=900/900 steps=400000
func H_C05_prefix() {
	root := NewMapDB()
	store := kvstore.KVStore(root)
	if verifrt.Choose("flush", 2) == 1 {
		store = flushkv.New(root) // the flush wrapper must keep DeletePrefix / Clear atomic
	}
	view, _ := store.WithRealm(append(make([]byte, 0, 8), 1))
	model := map[string]byte{}
	store.Set([]byte{1, 2}, []byte{90})
	model[string([]byte{1, 2})] = 90
	del := &c05Op{thread: 0, kind: c05DeletePrefix, key: 1}
	switch verifrt.Choose("how", 3) {
	case 1:
		del.kind = c05Clear
	case 2:
		del.onView, del.kind = true, c05Clear
	}
	w1 := &c05Op{thread: 1, onView: true, kind: c05Set, key: 1, val: 21}
	w2 := &c05Op{thread: 1, onView: true, kind: c05Set, key: 2, val: 22}
	var wg sync.WaitGroup
	wg.Add(2)
	go func() {
		defer wg.Done()
		verifrt.MustFinish()
		if del.onView {
			c05Run(view, del)
		} else {
			c05Run(store, del)
		}
	}()
	go func() { defer wg.Done(); verifrt.MustFinish(); c05Run(view, w1); c05Run(view, w2) }()
	wg.Wait()
	f1 := &c05Op{thread: 2, onView: true, kind: c05Get, key: 1}
	f2 := &c05Op{thread: 2, onView: true, kind: c05Get, key: 2}
	c05Run(view, f1)
	c05Run(view, f2)
	acts := []*c05Action{{op: del}, {op: w1}, {op: w2}, {op: f1}, {op: f2}}
	verifrt.Assert(c05Linearizable(acts, model), "DeletePrefix / Clear racing with two writes through another view left contents that no linearization explains")
	verifrt.Cover("linearized")
}
