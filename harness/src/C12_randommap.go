//verif:pkg ds/randommap
package randommap

import "verifrt"

// Property C12 (RandomMap): a map whose random picks are always members; RandomUniqueEntries(n) returns
// min(n,size) distinct entries. math/rand is an arbitrary value in range (solver-chosen), rand.Perm an
// arbitrary permutation. HIST through the public API plus the representation invariant (Appendix A.7).

func c12RMInv(r *RandomMap[uint8, uint8]) bool {
	if len(r.keys) != r.rawMap.Size() {
		return false
	}
	for i, k := range r.keys {
		e, ok := r.rawMap.Get(k)
		if !ok || e.key != k || e.keyIndex != i {
			return false
		}
	}

	return true
}

//verif:h prop=C12 p.ops=3/4 cover=set,delete,randomkey,unique native=0 runs=2000000 timeout=900/900
func H_C12_randommap() {
	r := New[uint8, uint8]()
	var mk, mv []uint8
	idx := func(k uint8) int {
		for i := range mk {
			if mk[i] == k {
				return i
			}
		}

		return -1
	}
	u := [3]uint8{verifrt.U8("k0"), verifrt.U8("k1"), verifrt.U8("k2")}
	n := verifrt.Param("ops", 3)
	for s := 0; s < n; s++ {
		k := u[verifrt.Choose("key", 3)]
		switch verifrt.Choose("op", 5) {
		case 0:
			// distinct values per key make "distinct entries" observable
			v := verifrt.U8("v")
			r.Set(k, v)
			if i := idx(k); i >= 0 {
				mv[i] = v
			} else {
				mk, mv = append(mk, k), append(mv, v)
			}
			verifrt.Cover("set")
		case 1:
			v, d := r.Delete(k)
			i := idx(k)
			verifrt.Assert(d == (i >= 0) && (i < 0 || v == mv[i]), "RandomMap.Delete differs from a plain map")
			if i >= 0 {
				mk = append(append([]uint8{}, mk[:i]...), mk[i+1:]...)
				mv = append(append([]uint8{}, mv[:i]...), mv[i+1:]...)
				verifrt.Cover("delete")
			}
		case 2:
			rk, ok := r.RandomKey()
			verifrt.Assert(ok == (len(mk) > 0) && (!ok || idx(rk) >= 0), "RandomMap.RandomKey returned a key that is not in the map")
			verifrt.Cover("randomkey")
		case 3:
			rv, ok := r.RandomEntry()
			found := false
			for _, v := range mv {
				if v == rv {
					found = true
				}
			}
			verifrt.Assert(ok == (len(mk) > 0) && (!ok || found), "RandomMap.RandomEntry returned a value that is not in the map")
		case 4:
			cnt := verifrt.Choose("count", 4)
			res := r.RandomUniqueEntries(cnt)
			want := cnt
			if len(mk) < want {
				want = len(mk)
			}
			verifrt.Assert(len(res) == want, "RandomMap.RandomUniqueEntries(n) did not return min(n,size) entries")
			// distinct entries: match results to distinct map positions
			used := make([]bool, len(mk))
			for _, x := range res {
				ok := false
				for j := range mv {
					if !used[j] && mv[j] == x {
						used[j], ok = true, true

						break
					}
				}
				verifrt.Assert(ok, "RandomMap.RandomUniqueEntries returned a non-member or the same entry twice")
			}
			verifrt.Cover("unique")
		}
		verifrt.Assert(r.Size() == len(mk), "RandomMap.Size differs from a plain map")
		verifrt.Assert(c12RMInv(r), "RandomMap: key slice and index map disagree (representation invariant broken)")
		for j := range mk {
			v, ok := r.Get(mk[j])
			verifrt.Assert(ok && v == mv[j] && r.Has(mk[j]), "RandomMap.Get differs from a plain map")
		}
	}
}
