//verif:pkg ds/walker
package walker

import "verifrt"

// Property C12 (Walker): yields every pushed element once (unless revisiting is enabled) in queue order.

//verif:h prop=C12 p.ops=2/3 cover=push,pushfront,next,reset,repeat runs=1000000 timeout=900/1200
func H_C12_walker() {
	revisit := verifrt.Choose("revisit", 2) == 1
	w := New[uint8](revisit)
	u := [3]uint8{verifrt.U8("k0"), verifrt.U8("k1"), verifrt.U8("k2")}
	var queue []uint8
	var seen []uint8
	wasSeen := func(k uint8) bool {
		for _, x := range seen {
			if x == k {
				return true
			}
		}

		return false
	}
	pushBack := func(k uint8) {
		if wasSeen(k) {
			verifrt.Cover("repeat")
			if !revisit {
				return
			}
		} else {
			seen = append(seen, k)
		}
		queue = append(queue, k)
	}
	pushFront := func(k uint8) {
		if wasSeen(k) {
			verifrt.Cover("repeat")
			if !revisit {
				return
			}
		} else {
			seen = append(seen, k)
		}
		queue = append([]uint8{k}, queue...)
	}
	n := verifrt.Param("ops", 3)
	for i := 0; i < n; i++ {
		switch verifrt.Choose("op", 5) {
		case 0:
			k := u[verifrt.Choose("key", 3)]
			w.Push(k)
			pushBack(k)
			verifrt.Cover("push")
		case 1:
			a, b := u[verifrt.Choose("key", 3)], u[verifrt.Choose("key", 3)]
			w.PushAll(a, b)
			pushBack(a)
			pushBack(b)
		case 2:
			a, b := u[verifrt.Choose("key", 3)], u[verifrt.Choose("key", 3)]
			w.PushFront(a, b)
			pushFront(a)
			pushFront(b)
			verifrt.Cover("pushfront")
		case 3:
			if len(queue) > 0 {
				verifrt.Assert(w.HasNext(), "Walker.HasNext is false although elements are queued")
				v := w.Next()
				verifrt.Assert(v == queue[0], "Walker.Next did not yield the elements in queue order")
				queue = queue[1:]
				verifrt.Cover("next")
			} else {
				verifrt.Assert(!w.HasNext(), "Walker.HasNext is true although nothing is queued")
			}
		case 4:
			w.Reset()
			queue, seen = nil, nil
			verifrt.Cover("reset")
		}
		verifrt.Assert(w.HasNext() == (len(queue) > 0), "Walker.HasNext differs from the model")
		k := u[verifrt.Choose("probe", 3)]
		verifrt.Assert(w.Pushed(k) == wasSeen(k), "Walker.Pushed differs from the model")
	}
	// drain
	for len(queue) > 0 {
		verifrt.Assert(w.HasNext(), "Walker lost a queued element")
		verifrt.Assert(w.Next() == queue[0], "Walker.Next did not yield the elements in queue order")
		queue = queue[1:]
	}
	verifrt.Assert(!w.HasNext(), "Walker yields an element that was not queued")
}
