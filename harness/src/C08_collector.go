//verif:pkg kvstore
package kvstore

import (
	"sync/atomic"

	"verifrt"

	"github.com/iotaledger/hive.go/ierrors"
)

// Property C08, collector level with a faulty store: an object is told BatchWriteDone only after its mutations were
// committed; when the commit of a batch fails none of its objects is told so and the error is reported.

type c08cMuts struct {
	committed, cancelled bool
	fail                 bool
	sets                 int
}

var errC08Commit = ierrors.New("injected commit failure")

func (m *c08cMuts) Set(Key, Value) error { m.sets++; return nil }
func (m *c08cMuts) Delete(Key) error     { return nil }
func (m *c08cMuts) Cancel()              { m.cancelled = true }
func (m *c08cMuts) Commit() error {
	if m.fail {
		return errC08Commit
	}
	m.committed = true

	return nil
}

type c08cObj struct {
	muts        *c08cMuts
	writes      int
	dones       int
	doneTooSoon bool
}

func (o *c08cObj) BatchWrite(b BatchedMutations) { o.writes++; _ = b.Set([]byte{1}, []byte{2}) }
func (o *c08cObj) BatchWriteDone() {
	o.dones++
	if !o.muts.committed {
		o.doneTooSoon = true
	}
}
func (o *c08cObj) BatchWriteScheduled() bool { return false }
func (o *c08cObj) ResetBatchWriteScheduled() {}

//verif:h prop=C08 cover=committed,failed,empty
func H_C08_collector() {
	muts := &c08cMuts{fail: verifrt.Bool("commitFails")}
	var scheduled atomic.Int32
	n := verifrt.Choose("objects", 3)
	scheduled.Store(int32(n))
	bc := newBatchCollector(muts, &scheduled, 2)
	objs := []*c08cObj{{muts: muts}, {muts: muts}}
	for k := 0; k < n; k++ {
		full := bc.Add(objs[k])
		verifrt.Assert(full == (k == 1), "BatchCollector.Add reports 'batch size reached' at the wrong object")
	}
	err := bc.Commit()
	if n == 0 {
		verifrt.Cover("empty")
		verifrt.Assert(err == nil && muts.cancelled && !muts.committed, "an empty batch must be cancelled, not committed")

		return
	}
	verifrt.Assert(scheduled.Load() == 0, "the scheduled counter does not drop by one per collected object")
	if muts.fail {
		verifrt.Cover("failed")
		verifrt.Assert(err != nil, "a failing commit was not reported")
		for k := 0; k < n; k++ {
			verifrt.Assert(objs[k].dones == 0, "BatchWriteDone was called although the commit of the batch failed")
		}
	} else {
		verifrt.Cover("committed")
		verifrt.Assert(err == nil && muts.committed, "Commit failed on a working store")
		for k := 0; k < n; k++ {
			verifrt.Assert(objs[k].writes == 1 && objs[k].dones == 1 && !objs[k].doneTooSoon, "an object of a committed batch did not get exactly one BatchWrite and one BatchWriteDone after the commit")
		}
	}
}
