//verif:pkg ds/reactive
package reactive

import (
	"sync"

	"verifrt"

	"github.com/iotaledger/hive.go/ds"
)

// Property C14: derived reactive values converge to their defining function of the current inputs.

//verif:h prop=C14 p.writes=3/4 cover=derived1,derived2,inherit,unsubscribed runs=5000000 timeout=900/900
func H_C14_variable_hist() {
	a, b := NewVariable[uint8](), NewVariable[uint8]()
	kind := verifrt.Choose("kind", 3)
	var d ReadableVariable[uint8]
	var stop func()
	f := func(x, y uint8) uint8 { return x ^ (y << 1) }
	switch kind {
	case 0:
		dv := NewDerivedVariable[uint8](func(_ uint8, x uint8) uint8 { return f(x, 0) }, a)
		d, stop = dv, dv.Unsubscribe
		verifrt.Cover("derived1")
	case 1:
		dv := NewDerivedVariable2[uint8](func(_ uint8, x, y uint8) uint8 { return f(x, y) }, a, b)
		d, stop = dv, dv.Unsubscribe
		verifrt.Cover("derived2")
	case 2:
		v := NewVariable[uint8]()
		// the target may already hold something and the source may still be at its zero value when the link is made
		if verifrt.Choose("targetPreset", 2) == 1 {
			v.Set(verifrt.U8("preset"))
		}
		if verifrt.Choose("sourcePreset", 2) == 1 {
			a.Set(verifrt.U8("va0"))
		}
		stop = v.InheritFrom(a)
		d = v
		verifrt.Assert(v.Get() == a.Get(), "InheritFrom did not copy the current value of its source at once")
		verifrt.Cover("inherit")
	}
	n := verifrt.Param("writes", 3)
	stopAt := verifrt.Choose("unsubscribeBefore", n+1) // n: never
	frozen, isFrozen := uint8(0), false
	for w := 0; w < n; w++ {
		if w == stopAt {
			stop()
			frozen, isFrozen = d.Get(), true
			verifrt.Cover("unsubscribed")
		}
		if verifrt.Choose("input", 2) == 0 {
			a.Set(verifrt.U8("va"))
		} else {
			b.Set(verifrt.U8("vb"))
		}
		want := f(a.Get(), 0)
		switch kind {
		case 1:
			want = f(a.Get(), b.Get())
		case 2:
			want = a.Get()
		}
		if isFrozen {
			verifrt.Assert(d.Get() == frozen, "a derived value still follows its inputs after Unsubscribe")
		} else {
			verifrt.Assert(d.Get() == want, "a derived variable differs from its defining function of the current inputs")
		}
	}
}

func c14Subset(u [3]uint8, name string) ds.Set[uint8] {
	r := ds.NewSet[uint8]()
	mask := verifrt.Choose(name, 8)
	for i := 0; i < 3; i++ {
		if mask&(1<<i) != 0 {
			r.Add(u[i])
		}
	}

	return r
}

func c14Universe() [3]uint8 {
	u := [3]uint8{verifrt.U8("k0"), verifrt.U8("k1"), verifrt.U8("k2")}
	verifrt.Assume(u[0] != u[1] && u[1] != u[2] && u[0] != u[2])

	return u
}

// H_C14_derivedset_hist: a DerivedSet equals the union of its current sources, SubtractReactive the source
// minus the others, through histories of Add/Delete/Replace on the sources and unsubscribing a source.
//
//verif:h prop=C14 p.ops=3/4 cover=union,subtract,replace,readd,unsubscribe runs=5000000 timeout=900/900
func H_C14_derivedset_hist() {
	u := c14Universe()
	s1, s2 := NewSet[uint8](), NewSet[uint8]()
	derived := NewDerivedSet[uint8]()
	stop1 := derived.InheritFrom(s1)
	derived.InheritFrom(s2)
	minus := s1.SubtractReactive(s2)
	src1Active := true
	n := verifrt.Param("ops", 2)
	for step := 0; step < n; step++ {
		s := s1
		if verifrt.Choose("source", 2) == 1 {
			s = s2
		}
		switch verifrt.Choose("op", 4) {
		case 0:
			k := u[verifrt.Choose("key", 3)]
			if !s.Add(k) {
				verifrt.Cover("readd")
			}
		case 1:
			s.Delete(u[verifrt.Choose("key", 3)])
		case 2:
			s.Replace(c14Subset(u, "other"))
			verifrt.Cover("replace")
		case 3:
			if src1Active {
				stop1()
				src1Active = false
				verifrt.Cover("unsubscribe")
			}
		}
		for _, k := range u {
			in1, in2 := s1.Has(k), s2.Has(k)
			wantUnion := in2 || (in1 && src1Active)
			verifrt.Assert(derived.Has(k) == wantUnion, "a DerivedSet differs from the union of its current sources")
			verifrt.Assert(minus.Has(k) == (in1 && !in2), "SubtractReactive differs from the source minus the others")
		}
		verifrt.Cover("union")
		verifrt.Cover("subtract")
	}
}

// H_C14_counter_hist: a Counter equals the number of monitored inputs that currently satisfy its condition.
//
//verif:h prop=C14 p.writes=3/4 cover=count runs=5000000 timeout=900/900
func H_C14_counter_hist() {
	in := [2]Variable[uint8]{NewVariable[uint8](), NewVariable[uint8]()}
	// two conditions: one that is false for the zero value and one that is true for it
	zeroTrue := verifrt.Choose("conditionTrueForZero", 2) == 1
	cond := func(v uint8) bool {
		if zeroTrue {
			return v < 128
		}

		return v&1 == 1
	}
	c := NewCounter[uint8](cond)
	monitored := [2]bool{true, verifrt.Choose("second", 2) == 1}
	var stops [2]func()
	for i := range in {
		if verifrt.Choose("preset", 2) == 1 {
			in[i].Set(verifrt.U8("init"))
		}
		if monitored[i] {
			stops[i] = c.Monitor(in[i])
		}
	}
	n := verifrt.Param("writes", 3)
	for w := 0; w <= n; w++ {
		want := 0
		for i := range in {
			if monitored[i] && cond(in[i].Get()) {
				want++
			}
		}
		verifrt.Assert(c.Get() == want, "a Counter differs from the number of monitored inputs that satisfy its condition")
		verifrt.Cover("count")
		if w == n {
			break
		}
		in[verifrt.Choose("input", 2)].Set(verifrt.U8("v"))
	}
}

// H_C14_sortedset_hist: a SortedSet lists its elements by current weight, Heaviest/Lightest at the ends.
//
//verif:h prop=C14 p.ops=3/4 cover=add,delete,reweigh,reweigh-removed runs=5000000 timeout=900/900
func H_C14_sortedset_hist() {
	weights := [3]Variable[uint8]{NewVariable[uint8](), NewVariable[uint8](), NewVariable[uint8]()}
	ss := NewSortedSet[int, uint8](func(e int) Variable[uint8] { return weights[e-1] })
	for i := range weights {
		weights[i].Set(verifrt.U8("w"))
	}
	member := [3]bool{}
	n := verifrt.Param("ops", 3)
	for step := 0; step < n; step++ {
		e := 1 + verifrt.Choose("elem", 3)
		switch verifrt.Choose("op", 3) {
		case 0:
			ss.Add(e)
			member[e-1] = true
			verifrt.Cover("add")
		case 1:
			ss.Delete(e)
			member[e-1] = false
			verifrt.Cover("delete")
		case 2:
			weights[e-1].Set(verifrt.U8("w"))
			if member[e-1] {
				verifrt.Cover("reweigh")
			} else {
				verifrt.Cover("reweigh-removed")
			}
		}
		desc := ss.Descending()
		asc := ss.Ascending()
		cnt := 0
		for i := range member {
			if member[i] {
				cnt++
			}
		}
		verifrt.Assert(len(desc) == cnt && len(asc) == cnt, "a SortedSet does not list exactly its current elements")
		for i := range desc {
			verifrt.Assert(member[desc[i]-1], "a SortedSet lists an element that was removed")
			verifrt.Assert(asc[len(asc)-1-i] == desc[i], "Ascending is not the reverse of Descending")
			if i > 0 {
				verifrt.Assert(weights[desc[i-1]-1].Get() >= weights[desc[i]-1].Get(), "a SortedSet is not ordered by the current weights")
			}
		}
		if cnt > 0 {
			verifrt.Assert(ss.HeaviestElement().Get() == desc[0], "HeaviestElement is not the first element in descending order")
			verifrt.Assert(ss.LightestElement().Get() == desc[cnt-1], "LightestElement is not the last element in descending order")
		} else {
			verifrt.Assert(ss.HeaviestElement().Get() == 0 && ss.LightestElement().Get() == 0, "Heaviest/LightestElement of an empty SortedSet are not reset")
		}
	}
}

// H_C14_waitgroup_hist: a WaitGroup triggers when and only when its last pending element is marked done.
//
//verif:h prop=C14 p.ops=3/4 cover=triggered,pending runs=5000000 timeout=900/900
func H_C14_waitgroup_hist() {
	u := c14Universe()
	wg := NewWaitGroup[uint8](u[0])
	pending := []uint8{u[0]}
	has := func(k uint8) int {
		for i, x := range pending {
			if x == k {
				return i
			}
		}

		return -1
	}
	everEmpty := false
	n := verifrt.Param("ops", 3)
	for step := 0; step < n; step++ {
		k := u[verifrt.Choose("key", 3)]
		if verifrt.Choose("done", 2) == 1 {
			wg.Done(k)
			if i := has(k); i >= 0 {
				pending = append(append([]uint8{}, pending[:i]...), pending[i+1:]...)
				if len(pending) == 0 {
					everEmpty = true
				}
			}
		} else {
			wg.Add(k)
			if has(k) < 0 {
				pending = append(pending, k)
			}
		}
		verifrt.Assert(wg.WasTriggered() == everEmpty, "a WaitGroup triggered although elements were always pending, or did not trigger when the last pending element was marked done")
		verifrt.Assert(wg.PendingElements().Size() == len(pending), "PendingElements differs from the elements that were added and not marked done")
		if everEmpty {
			verifrt.Cover("triggered")
		} else {
			verifrt.Cover("pending")
		}
	}
}

// H_C14_waitgroup_conc: Add of two elements racing with Done of the first: the group triggers only when nothing is
// pending any more.
//
//verif:h prop=C14 preempt=2/3 cover=done runs=5000000 timeout=900/900
func H_C14_waitgroup_conc() {
	wg := NewWaitGroup[uint8]()
	var w sync.WaitGroup
	w.Add(2)
	go func() { defer w.Done(); verifrt.MustFinish(); wg.Add(1, 2) }()
	go func() { defer w.Done(); verifrt.MustFinish(); wg.Done(1) }()
	verifrt.MustFinish()
	w.Wait()
	verifrt.Cover("done")
	pending := wg.PendingElements().Size()
	// Done(1) before Add: no effect, both stay pending; after (or inside) Add: 2 stays pending. Either way something is pending.
	verifrt.Assert(pending >= 1, "an element that was added and never marked done is not pending")
	verifrt.Assert(!wg.WasTriggered(), "a WaitGroup triggered while an added element was still pending")
}

// H_C14_eviction_hist: an EvictionState has triggered exactly the events of slots up to the last evicted slot.
//
//verif:h prop=C14 p.ops=3/4 cover=evicted,future runs=5000000 timeout=900/900
func H_C14_eviction_hist() {
	es := NewEvictionState[uint8]()
	events := map[uint8]Event{}
	last, any := uint8(0), false
	n := verifrt.Param("ops", 3)
	for step := 0; step < n; step++ {
		slot := uint8(verifrt.Choose("slot", 5))
		if verifrt.Choose("evict", 2) == 1 {
			es.Evict(slot)
			if !any || slot > last {
				last, any = slot, true
			}
		} else {
			events[slot] = es.EvictionEvent(slot)
		}
		if any {
			verifrt.Assert(es.LastEvictedSlot() == last, "LastEvictedSlot differs from the highest evicted slot")
		}
		for s, ev := range events {
			want := any && s <= last
			verifrt.Assert(ev.WasTriggered() == want, "an eviction event is triggered although its slot is above the last evicted slot, or not triggered although it is at or below it")
			if want {
				verifrt.Cover("evicted")
			} else {
				verifrt.Cover("future")
			}
		}
	}
}

// H_C14_conc: writers on different inputs / structural versus value changes; at quiescence the derived values
// equal their defining functions; no combination deadlocks (all goroutines are must-finish).
//
//verif:h prop=C14 preempt=1/2 cover=derived,union,sorted,sorted-add runs=30000000 timeout=900/900 steps=600000
func H_C14_conc() {
	var wg sync.WaitGroup
	run := func(f func()) {
		wg.Add(1)
		go func() { defer wg.Done(); verifrt.MustFinish(); f() }()
	}
	verifrt.MustFinish()
	switch verifrt.Choose("scenario", 4) {
	case 0: // two writers on the two inputs of a DerivedVariable2
		a, b := NewVariable[uint8](), NewVariable[uint8]()
		d := NewDerivedVariable2[uint8](func(_ uint8, x, y uint8) uint8 { return x + 10*y }, a, b)
		run(func() { a.Set(1) })
		run(func() { b.Set(2) })
		wg.Wait()
		verifrt.Assert(d.Get() == 21, "after both writers returned a DerivedVariable2 differs from compute(inputs)")
		verifrt.Cover("derived")
	case 1: // DerivedSet: one writer replaces source 1 while another adds to source 2
		s1, s2 := NewSet[uint8](1, 2), NewSet[uint8](2)
		derived := NewDerivedSet[uint8]()
		derived.InheritFrom(s1, s2)
		run(func() { s1.Replace(ds.NewSet[uint8](3)) })
		run(func() { s2.Add(1) })
		wg.Wait()
		verifrt.Assert(derived.Size() == 3 && derived.Has(1) && derived.Has(2) && derived.Has(3), "after both writers returned a DerivedSet differs from the union of its sources")
		verifrt.Cover("union")
	case 2: // SortedSet: an element is deleted while its weight changes
		w := [2]Variable[uint8]{NewVariable[uint8]().Init(5), NewVariable[uint8]().Init(7)}
		ss := NewSortedSet[int, uint8](func(e int) Variable[uint8] { return w[e-1] })
		ss.Add(1)
		ss.Add(2)
		run(func() { ss.Delete(2) })
		run(func() { w[1].Set(1) })
		wg.Wait()
		d := ss.Descending()
		verifrt.Assert(len(d) == 1 && d[0] == 1 && ss.HeaviestElement().Get() == 1 && ss.LightestElement().Get() == 1, "after a delete racing with a weight change a SortedSet differs from its elements ordered by weight")
		verifrt.Cover("sorted")
	case 3: // SortedSet: an element is added while its weight (and another element's weight) changes
		w := [2]Variable[uint8]{NewVariable[uint8]().Init(5), NewVariable[uint8]().Init(7)}
		ss := NewSortedSet[int, uint8](func(e int) Variable[uint8] { return w[e-1] })
		ss.Add(2)
		run(func() { ss.Add(1) })
		run(func() { w[0].Set(9) })
		wg.Wait()
		d := ss.Descending()
		verifrt.Assert(len(d) == 2 && d[0] == 1 && d[1] == 2 && ss.HeaviestElement().Get() == 1 && ss.LightestElement().Get() == 2, "after an add racing with a weight change a SortedSet differs from its elements ordered by weight")
		verifrt.Cover("sorted-add")
	}
}
