//verif:pkg kvstore/mapdb
package mapdb

import (
	"bytes"
	"sync/atomic"

	"verifrt"

	"github.com/iotaledger/hive.go/ierrors"
	"github.com/iotaledger/hive.go/kvstore"
	"github.com/iotaledger/hive.go/kvstore/debug"
	"github.com/iotaledger/hive.go/kvstore/flushkv"
)

// Property C04: KVStore views and wrappers obey one ordered-map contract.
//
// IND harnesses: the pre-state is an arbitrary map of up to p.entries entries with symbolic keys (length
// 0..p.maxkey) and values, built directly into syncedKVMap (any finite map is a valid state, DESIGN.md A.3);
// one operation with symbolic arguments is executed through a view (WithRealm / WithExtendedRealm with symbolic
// realm bytes) and a wrapper stack, and compared with a model keyed by realm||key.

type c04Entry struct {
	k, v []byte
}

type c04Model struct {
	e []c04Entry
}

func (m *c04Model) find(full []byte) int {
	for i := range m.e {
		if bytes.Equal(m.e[i].k, full) {
			return i
		}
	}

	return -1
}

func (m *c04Model) set(full, v []byte) {
	full, v = append([]byte{}, full...), append([]byte{}, v...)
	if i := m.find(full); i >= 0 {
		m.e[i].v = v

		return
	}
	m.e = append(m.e, c04Entry{full, v})
}

func (m *c04Model) del(full []byte) {
	if i := m.find(full); i >= 0 {
		m.e = append(m.e[:i], m.e[i+1:]...)
	}
}

func (m *c04Model) delPrefix(p []byte) {
	var keep []c04Entry
	for _, e := range m.e {
		if !bytes.HasPrefix(e.k, p) {
			keep = append(keep, e)
		}
	}
	m.e = keep
}

func c04Cat(a, b []byte) []byte { return append(append([]byte{}, a...), b...) }

// c04Spare copies b into a slice with spare capacity: callers of the API may pass such slices, and an
// implementation that appends to them (instead of copying) aliases its views.
func c04Spare(b []byte) []byte { return append(make([]byte, 0, len(b)+8), b...) }

type c04World struct {
	root   kvstore.KVStore // possibly wrapped root view
	raw    *mapDB
	view   kvstore.KVStore
	realm  []byte
	model  *c04Model
	dbgLog int
}

// c04Setup builds the symbolic pre-state, the wrapper stack and the view.
func c04Setup() *c04World {
	w := &c04World{model: &c04Model{}}
	n := verifrt.Param("entries", 2)
	maxKey := verifrt.Param("maxkey", 2)
	sm := &syncedKVMap{m: make(map[string][]byte)}
	for i := 0; i < n; i++ {
		if verifrt.Choose("present", 2) == 0 {
			continue
		}
		k := verifrt.Bytes("k", maxKey)
		v := verifrt.Bytes("v", 1)
		verifrt.Assume(w.model.find(k) < 0) // distinct keys
		sm.m[string(k)] = append([]byte{}, v...)
		w.model.set(k, v)
	}
	w.raw = &mapDB{m: sm, closed: new(atomic.Bool)}
	w.root = w.raw
	switch verifrt.Choose("wrapper", verifrt.Param("wrappers", 2)) {
	case 1:
		w.root = flushkv.New(debug.New(w.raw, func(debug.Command, ...[]byte) { w.dbgLog++ }))
	case 2:
		w.root = flushkv.New(w.raw)
	case 3:
		w.root = debug.New(w.raw, func(debug.Command, ...[]byte) { w.dbgLog++ }, debug.GetCommand, debug.SetCommand)
	}
	var err error
	switch verifrt.Choose("view", 4) {
	case 0:
		w.view = w.root
	case 1: // WithRealm, realm of length 0..2
		r := verifrt.Bytes("r", 2)
		w.view, err = w.root.WithRealm(c04Spare(r))
		w.realm = r
	case 2: // nested: WithRealm(1 byte) then WithExtendedRealm(0..1 byte)
		ra, rb := verifrt.BytesN("ra", 1), verifrt.Bytes("rb", 1)
		v1, err1 := w.root.WithRealm(c04Spare(ra))
		verifrt.Assert(err1 == nil, "WithRealm fails on an open store")
		w.view, err = v1.WithExtendedRealm(c04Spare(rb))
		w.realm = c04Cat(ra, rb)
	case 3: // extended realm on the root view (empty base realm)
		r := verifrt.BytesN("r", 1)
		w.view, err = w.root.WithExtendedRealm(c04Spare(r))
		w.realm = r
	}
	verifrt.Assert(err == nil && w.view != nil, "view creation fails on an open store")
	verifrt.Assert(bytes.Equal(w.view.Realm(), w.realm), "Realm() differs from the realm the view was created with")

	return w
}

// check compares the whole store with the model (through the unwrapped root view and the raw map size).
func (w *c04World) check(what string) {
	verifrt.Assert(len(w.raw.m.m) == len(w.model.e), what+": number of stored entries differs from the model")
	for _, e := range w.model.e {
		v, err := w.raw.Get(e.k)
		verifrt.Assert(err == nil && bytes.Equal(v, e.v), what+": stored entry differs from the model")
	}
}

//verif:h prop=C04 p.entries=2/3 p.maxkey=2/2 p.wrappers=2/4 cover=get-hit,get-miss,has,set-new,set-overwrite,delete-hit,delete-miss runs=400000 timeout=900/900
func H_C04_point() {
	w := c04Setup()
	key := verifrt.Bytes("key", 2)
	full := c04Cat(w.realm, key)
	mi := w.model.find(full)
	switch verifrt.Choose("op", 4) {
	case 0:
		v, err := w.view.Get(append([]byte{}, key...))
		if mi >= 0 {
			verifrt.Cover("get-hit")
			verifrt.Assert(err == nil && bytes.Equal(v, w.model.e[mi].v), "Get: value differs from the last write")
			if len(v) > 0 {
				v[0] ^= 0xff // the returned value must be a private copy
			}
		} else {
			verifrt.Cover("get-miss")
			verifrt.Assert(v == nil && err != nil && ierrors.Is(err, kvstore.ErrKeyNotFound), "Get: missing key must give ErrKeyNotFound")
		}
	case 1:
		h, err := w.view.Has(append([]byte{}, key...))
		verifrt.Cover("has")
		verifrt.Assert(err == nil && h == (mi >= 0), "Has: result differs from the model")
	case 2:
		val := verifrt.Bytes("val", 1)
		kbuf, vbuf := append([]byte{}, key...), append([]byte{}, val...)
		err := w.view.Set(kbuf, vbuf)
		verifrt.Assert(err == nil, "Set fails on an open store")
		// mutating the caller's buffers after Set returned must not change stored data
		if len(kbuf) > 0 {
			kbuf[0] ^= 0xff
		}
		if len(vbuf) > 0 {
			vbuf[0] ^= 0xff
		}
		if mi >= 0 {
			verifrt.Cover("set-overwrite")
		} else {
			verifrt.Cover("set-new")
		}
		w.model.set(full, val)
	case 3:
		err := w.view.Delete(append([]byte{}, key...))
		verifrt.Assert(err == nil, "Delete fails on an open store")
		if mi >= 0 {
			verifrt.Cover("delete-hit")
		} else {
			verifrt.Cover("delete-miss")
		}
		w.model.del(full)
	}
	w.check("point operation")
}

//verif:h prop=C04 p.entries=2/3 p.maxkey=2/2 p.wrappers=2/4 cover=all,stopped,empty,values runs=400000 timeout=900/900
func H_C04_iterate() {
	w := c04Setup()
	prefix := verifrt.Bytes("prefix", 1)
	fullPrefix := c04Cat(w.realm, prefix)
	backward := verifrt.Choose("dir", 2) == 1
	keysOnly := verifrt.Choose("keysOnly", 2) == 1
	stopAt := verifrt.Choose("stopAt", 3) - 1 // -1: never stop
	var gotK, gotV [][]byte
	consume := func(k, v []byte) bool {
		gotK = append(gotK, k)
		gotV = append(gotV, v)

		return len(gotK)-1 != stopAt
	}
	var dir []kvstore.IterDirection
	if backward {
		dir = append(dir, kvstore.IterDirectionBackward)
	} else if verifrt.Choose("explicitDir", 2) == 1 {
		dir = append(dir, kvstore.IterDirectionForward)
	}
	var err error
	if keysOnly {
		err = w.view.IterateKeys(append([]byte{}, prefix...), func(k []byte) bool { return consume(k, nil) }, dir...)
	} else {
		err = w.view.Iterate(append([]byte{}, prefix...), consume, dir...)
	}
	verifrt.Assert(err == nil, "Iterate fails on an open store")
	// every reported entry exists, carries the prefix inside the realm, realm stripped, value right
	for i := range gotK {
		full := c04Cat(w.realm, gotK[i])
		mi := w.model.find(full)
		verifrt.Assert(mi >= 0, "Iterate reported a key that is not stored (or did not strip the realm)")
		verifrt.Assert(bytes.HasPrefix(gotK[i], prefix), "Iterate reported a key without the requested prefix")
		if !keysOnly {
			verifrt.Cover("values")
			verifrt.Assert(bytes.Equal(gotV[i], w.model.e[mi].v), "Iterate reported a wrong value")
		}
		if i > 0 {
			c := bytes.Compare(gotK[i-1], gotK[i])
			if backward {
				verifrt.Assert(c > 0, "Iterate (backward) is not in strictly descending byte order")
			} else {
				verifrt.Assert(c < 0, "Iterate (forward) is not in strictly ascending byte order")
			}
		}
	}
	// completeness: count the stored entries with the prefix (one term, no forking)
	cnt, upTo := 0, 0
	for _, e := range w.model.e {
		in := bytes.HasPrefix(e.k, fullPrefix)
		cnt += verifrt.B2I(in)
		if len(gotK) > 0 {
			last := c04Cat(w.realm, gotK[len(gotK)-1])
			c := bytes.Compare(e.k, last)
			if backward {
				upTo += verifrt.B2I(verifrt.And(in, c >= 0))
			} else {
				upTo += verifrt.B2I(verifrt.And(in, c <= 0))
			}
		}
	}
	stopped := stopAt >= 0 && len(gotK) == stopAt+1
	if stopped {
		verifrt.Cover("stopped")
		verifrt.Assert(upTo == len(gotK), "Iterate skipped an entry before the point where the consumer stopped")
	} else {
		verifrt.Assert(cnt == len(gotK), "Iterate did not report exactly the stored keys with the prefix")
		if len(gotK) == 0 {
			verifrt.Cover("empty")
		} else {
			verifrt.Cover("all")
		}
	}
	// the slices handed to the consumer are the caller's: scribbling over them must not reach the store
	for i := range gotK {
		for j := range gotK[i] {
			gotK[i][j] ^= 0xff
		}
		for j := range gotV[i] {
			gotV[i][j] ^= 0xff
		}
	}
	w.check("iteration (and writing to the keys / values it handed out) must not change the store")
}

//verif:h prop=C04 p.entries=2/3 p.maxkey=2/2 p.wrappers=2/4 cover=deleteprefix,clear runs=400000 timeout=900/900
func H_C04_prefix() {
	w := c04Setup()
	if verifrt.Choose("op", 2) == 0 {
		prefix := verifrt.Bytes("prefix", 2)
		pbuf := append([]byte{}, prefix...)
		verifrt.Assert(w.view.DeletePrefix(pbuf) == nil, "DeletePrefix fails on an open store")
		verifrt.Cover("deleteprefix")
		w.model.delPrefix(c04Cat(w.realm, prefix))
	} else {
		verifrt.Assert(w.view.Clear() == nil, "Clear fails on an open store")
		verifrt.Cover("clear")
		w.model.delPrefix(w.realm)
	}
	w.check("DeletePrefix/Clear must remove exactly the keys with the prefix inside the realm")
}

//verif:h prop=C04 p.entries=1/2 p.maxkey=1/2 p.wrappers=2/4 p.batchops=2/3 cover=commit,cancel,set-then-delete runs=400000 timeout=900/900
func H_C04_batch() {
	w := c04Setup()
	b, err := w.view.Batched()
	verifrt.Assert(err == nil && b != nil, "Batched fails on an open store")
	// two symbolic keys; operations pick one of them
	keys := [][]byte{verifrt.Bytes("bk", 1), verifrt.Bytes("bk", 1)}
	type op struct {
		k, v []byte
		del  bool
	}
	var ops []op
	var bufs [][]byte
	n := verifrt.Param("batchops", 2)
	for i := 0; i < n; i++ {
		k := keys[verifrt.Choose("which", 2)]
		if verifrt.Choose("kind", 2) == 0 {
			v := verifrt.Bytes("bv", 1)
			vbuf := append([]byte{}, v...)
			verifrt.Assert(b.Set(append([]byte{}, k...), vbuf) == nil, "batch Set fails")
			bufs = append(bufs, vbuf)
			ops = append(ops, op{k: k, v: v})
		} else {
			verifrt.Assert(b.Delete(append([]byte{}, k...)) == nil, "batch Delete fails")
			ops = append(ops, op{k: k, del: true})
			if i > 0 && !ops[i-1].del {
				verifrt.Cover("set-then-delete")
			}
		}
	}
	w.check("an uncommitted batch must not change the store")
	if verifrt.Choose("commit", 2) == 1 {
		verifrt.Assert(b.Commit() == nil, "Commit fails on an open store")
		verifrt.Cover("commit")
		for _, vb := range bufs { // mutating a caller's buffer after Commit returned must not change stored data
			if len(vb) > 0 {
				vb[0] ^= 0xff
			}
		}
		for _, o := range ops { // last operation per key wins
			if o.del {
				w.model.del(c04Cat(w.realm, o.k))
			} else {
				w.model.set(c04Cat(w.realm, o.k), o.v)
			}
		}
	} else {
		b.Cancel()
		verifrt.Cover("cancel")
		verifrt.Assert(b.Commit() == nil, "Commit of a cancelled batch fails")
	}
	w.check("batch Commit applies the last operation per key, Cancel nothing")
}

//verif:h prop=C04 p.entries=1/1 p.maxkey=1/1 p.wrappers=2/4 cover=closed runs=400000
func H_C04_closed() {
	w := c04Setup()
	pre, perr := w.view.Batched()
	verifrt.Assert(perr == nil, "Batched fails on an open store")
	verifrt.Assert(pre.Set([]byte{1}, []byte{2}) == nil, "batch Set fails")
	// Close through any of: the view, the root, the raw store
	switch verifrt.Choose("closeVia", 3) {
	case 0:
		verifrt.Assert(w.view.Close() == nil, "Close fails")
	case 1:
		verifrt.Assert(w.root.Close() == nil, "Close fails")
	case 2:
		verifrt.Assert(w.raw.Close() == nil, "Close fails")
	}
	on := w.view
	if verifrt.Choose("onRoot", 2) == 1 {
		on = w.root
	}
	k := []byte{7}
	nop := func([]byte, []byte) bool { return true }
	var err error
	switch verifrt.Choose("call", 13) {
	case 0:
		_, err = on.Get(k)
	case 1:
		_, err = on.Has(k)
	case 2:
		err = on.Set(k, k)
	case 3:
		err = on.Delete(k)
	case 4:
		err = on.DeletePrefix(k)
	case 5:
		err = on.Clear()
	case 6:
		err = on.Iterate(kvstore.EmptyPrefix, nop)
	case 7:
		err = on.IterateKeys(kvstore.EmptyPrefix, func([]byte) bool { return true })
	case 8:
		_, err = on.WithRealm(k)
	case 9:
		_, err = on.WithExtendedRealm(k)
	case 10:
		_, err = on.Batched()
	case 11:
		err = on.Flush()
	case 12:
		err = pre.Commit()
	}
	verifrt.Cover("closed")
	verifrt.Assert(err != nil && ierrors.Is(err, kvstore.ErrStoreClosed), "a call after Close did not fail with ErrStoreClosed")
	verifrt.Assert(len(w.raw.m.m) == len(w.model.e), "a call after Close changed the store")
}

// H_C04_hist: histories of p.ops operations through the public API only (NewMapDB, views, wrappers), from the
// empty store, with symbolic 1-byte keys/realms: robust against refactoring of the representation.
//
//verif:h prop=C04 p.ops=2/3 cover=hist runs=400000 timeout=900/900
func H_C04_hist() {
	root := NewMapDB()
	store := kvstore.KVStore(root)
	if verifrt.Choose("wrapper", 2) == 1 {
		store = flushkv.New(debug.New(root, func(debug.Command, ...[]byte) {}))
	}
	r := verifrt.BytesN("r", 1)
	view, err := store.WithRealm(append([]byte{}, r...))
	verifrt.Assert(err == nil, "WithRealm fails on an open store")
	model := &c04Model{}
	n := verifrt.Param("ops", 2)
	for i := 0; i < n; i++ {
		onView := verifrt.Choose("onView", 2) == 1
		s, realm := store, []byte(nil)
		if onView {
			s, realm = view, r
		}
		k := verifrt.Bytes("k", 1)
		full := c04Cat(realm, k)
		switch verifrt.Choose("op", 4) {
		case 0:
			v := verifrt.BytesN("v", 1)
			verifrt.Assert(s.Set(append([]byte{}, k...), append([]byte{}, v...)) == nil, "Set fails on an open store")
			model.set(full, v)
		case 1:
			verifrt.Assert(s.Delete(append([]byte{}, k...)) == nil, "Delete fails on an open store")
			model.del(full)
		case 2:
			verifrt.Assert(s.DeletePrefix(append([]byte{}, k...)) == nil, "DeletePrefix fails on an open store")
			model.delPrefix(full)
		case 3:
			v, err := s.Get(append([]byte{}, k...))
			mi := model.find(full)
			if mi >= 0 {
				verifrt.Assert(err == nil && bytes.Equal(v, model.e[mi].v), "history: Get differs from the last write")
			} else {
				verifrt.Assert(err != nil && ierrors.Is(err, kvstore.ErrKeyNotFound), "history: missing key must give ErrKeyNotFound")
			}
		}
	}
	// final contents through a root iteration
	seen := 0
	var prev []byte
	verifrt.Assert(store.Iterate(kvstore.EmptyPrefix, func(k, v []byte) bool {
		mi := model.find(k)
		verifrt.Assert(mi >= 0 && bytes.Equal(v, model.e[mi].v), "history: final iteration reports an entry that differs from the model")
		if seen > 0 {
			verifrt.Assert(bytes.Compare(prev, k) < 0, "history: final iteration not in ascending order")
		}
		prev = k
		seen++

		return true
	}) == nil, "Iterate fails on an open store")
	verifrt.Assert(seen == len(model.e), "history: final iteration does not report exactly the model's keys")
	verifrt.Cover("hist")
}

// H_C04_siblings: two sibling views derived from one parent view (whose realm slice has spare capacity) stay
// independent: creating and using the second must not change what the first one sees.
//
//verif:h prop=C04 p.wrappers=2/4 cover=siblings runs=400000
func H_C04_siblings() {
	raw := NewMapDB()
	root := kvstore.KVStore(raw)
	switch verifrt.Choose("wrapper", verifrt.Param("wrappers", 2)) {
	case 1:
		root = flushkv.New(debug.New(raw, func(debug.Command, ...[]byte) {}))
	case 2:
		root = flushkv.New(raw)
	case 3:
		root = debug.New(raw, func(debug.Command, ...[]byte) {})
	}
	pr := verifrt.BytesN("parent", 1)
	var parent kvstore.KVStore
	var err error
	if verifrt.Choose("parentVia", 2) == 0 {
		parent, err = root.WithRealm(c04Spare(pr))
	} else {
		parent, err = root.WithExtendedRealm(c04Spare(pr))
	}
	verifrt.Assert(err == nil, "view creation fails on an open store")
	ra, rb := verifrt.BytesN("a", 1), verifrt.BytesN("b", 1)
	verifrt.Assume(ra[0] != rb[0])
	childA, errA := parent.WithExtendedRealm(c04Spare(ra))
	verifrt.Assert(errA == nil, "view creation fails on an open store")
	k, va, vb := verifrt.BytesN("k", 1), verifrt.BytesN("va", 1), verifrt.BytesN("vb", 1)
	verifrt.Assert(childA.Set(append([]byte{}, k...), append([]byte{}, va...)) == nil, "Set fails on an open store")
	childB, errB := parent.WithExtendedRealm(c04Spare(rb))
	verifrt.Assert(errB == nil, "view creation fails on an open store")
	verifrt.Assert(childB.Set(append([]byte{}, k...), append([]byte{}, vb...)) == nil, "Set fails on an open store")
	verifrt.Assert(bytes.Equal(childA.Realm(), c04Cat(pr, ra)) && bytes.Equal(childB.Realm(), c04Cat(pr, rb)) && bytes.Equal(parent.Realm(), pr),
		"creating a sibling view changed the realm of an existing view")
	ga, ea := childA.Get(append([]byte{}, k...))
	gb, eb := childB.Get(append([]byte{}, k...))
	verifrt.Assert(ea == nil && bytes.Equal(ga, va), "a view no longer sees its own write after a sibling view was created and used")
	verifrt.Assert(eb == nil && bytes.Equal(gb, vb), "the second sibling view does not see its own write")
	full, ef := root.Get(c04Cat(c04Cat(pr, ra), k))
	verifrt.Assert(ef == nil && bytes.Equal(full, va), "the root view does not see the entry under realm||key")
	verifrt.Assert(childA.Clear() == nil, "Clear fails on an open store")
	_, eb = childB.Get(append([]byte{}, k...))
	verifrt.Assert(eb == nil, "Clear on one view removed a sibling view's entry")
	verifrt.Cover("siblings")
}
