//verif:pkg kvstore/mapdb
package mapdb

import (
	"sync"
	"sync/atomic"
	"time"

	"verifrt"

	"github.com/iotaledger/hive.go/kvstore"
)

// Property C08: BatchedWriter never loses or half-writes an enqueued object.
//
// The engine explores the interleavings of producers, Flush, StopBatchWriter, the writer goroutine and the
// batch time-out (a clock decision) over a real mapdb store, for queue and batch sizes 1..2.

type c08Obj struct {
	id        byte
	scheduled atomic.Bool
	version   atomic.Int32 // bumped by the producer before each Enqueue
	store     kvstore.KVStore

	// ghost log (touched only by the writer goroutine / after quiescence)
	writes     int
	dones      int
	wrote      int32 // version handed to the last BatchWrite
	doneAfter  bool  // every BatchWriteDone saw its value committed
	lastDone   int   // stamp
	enqReturns int   // stamp after the (last) Enqueue returned (set by the producer)
}

func (o *c08Obj) BatchWrite(b kvstore.BatchedMutations) {
	o.wrote = o.version.Load()
	o.writes++
	_ = b.Set([]byte{o.id}, []byte{byte(o.wrote)})
}

func (o *c08Obj) BatchWriteDone() {
	o.dones++
	v, err := o.store.Get([]byte{o.id})
	if err != nil || len(v) != 1 || int32(v[0]) != o.wrote {
		o.doneAfter = false
	}
	o.lastDone = verifrt.Stamp()
}

func (o *c08Obj) BatchWriteScheduled() bool { return !o.scheduled.CompareAndSwap(false, true) }
func (o *c08Obj) ResetBatchWriteScheduled() { o.scheduled.Store(false) }

//verif:h prop=C08 p.sizes=1/2 p.producers=1/2 p.flush=1/2 preempt=1/2 cover=done,written p.maxfires=1/1 runs=30000000 timeout=900/900 steps=400000
func H_C08_enqueue_stop() {
	store := NewMapDB()
	queueSize := 1 + verifrt.Choose("queueSize", verifrt.Param("sizes", 1))
	batchSize := 1 + verifrt.Choose("batchSize", verifrt.Param("sizes", 1))
	bw := kvstore.NewBatchedWriter(store, kvstore.WithQueueSize(queueSize), kvstore.WithBatchSize(batchSize), kvstore.WithBatchTimeout(time.Second))
	objs := []*c08Obj{{id: 1, store: store, doneAfter: true}, {id: 2, store: store, doneAfter: true}}
	var stopInvoked, stopReturned atomic.Int64
	produce := func(o *c08Obj, times int) {
		verifrt.MustFinish()
		for k := 0; k < times; k++ {
			o.version.Add(1)
			bw.Enqueue(o)
			o.enqReturns = verifrt.Stamp()
		}
	}
	var wg sync.WaitGroup
	nProd := verifrt.Param("producers", 1)
	wg.Add(1)
	go func() { defer wg.Done(); produce(objs[0], 1+verifrt.Choose("twice", 2)) }()
	if verifrt.Choose("second", nProd) == 1 {
		wg.Add(1)
		go func() { defer wg.Done(); produce(objs[1], 1) }()
	}
	if verifrt.Choose("flush", verifrt.Param("flush", 1)) == 1 {
		wg.Add(1)
		go func() { defer wg.Done(); verifrt.MustFinish(); bw.Flush() }()
	}
	var stop2Invoked, stop2Returned atomic.Int64
	if verifrt.Choose("secondStop", 2) == 1 {
		wg.Add(1)
		go func() {
			defer wg.Done()
			verifrt.MustFinish()
			stop2Invoked.Store(int64(verifrt.Stamp()))
			bw.StopBatchWriter()
			stop2Returned.Store(int64(verifrt.Stamp()))
		}()
	}
	verifrt.MustFinish()
	if verifrt.Choose("stopAfterProducers", 2) == 1 {
		wg.Wait()
	}
	stopInvoked.Store(int64(verifrt.Stamp()))
	bw.StopBatchWriter()
	stopReturned.Store(int64(verifrt.Stamp()))
	wg.Wait()
	// a Stop that came before the first Enqueue is a no-op and the writer is auto-started afterwards: stop it
	// (again) so that the ghost state below is read at quiescence
	bw.StopBatchWriter()
	verifrt.Cover("done")
	// with two Stop callers the statement is about the first invocation: an Enqueue after it may be refused
	firstStop := stopInvoked.Load()
	if s2 := stop2Invoked.Load(); s2 != 0 && s2 < firstStop {
		firstStop = s2
	}
	for _, o := range objs {
		before := o.enqReturns != 0 && int64(o.enqReturns) < firstStop
		if before {
			verifrt.Cover("written")
			verifrt.Assert(o.writes >= 1, "an object whose Enqueue returned before StopBatchWriter was invoked was never passed to BatchWrite by the time Stop returned")
			verifrt.Assert(int64(o.lastDone) != 0, "an object whose Enqueue returned before StopBatchWriter was invoked never got its BatchWriteDone")
			v, err := store.Get([]byte{o.id})
			verifrt.Assert(err == nil && len(v) == 1 && int32(v[0]) == o.version.Load(), "committed store contents differ from the last BatchWrite of the object")
			verifrt.Assert(o.dones == o.writes, "BatchWriteDone was not called once per scheduling before StopBatchWriter returned")
			verifrt.Assert(int64(o.lastDone) < stopReturned.Load(), "StopBatchWriter returned before an enqueued object was completely written")
			if stop2Invoked.Load() != 0 {
				verifrt.Assert(int64(o.lastDone) < stop2Returned.Load(), "a concurrent second StopBatchWriter returned before an enqueued object was completely written")
			}
		}
		verifrt.Assert(o.doneAfter, "BatchWriteDone was called before the object's mutations were committed")
		verifrt.Assert(o.dones <= o.writes, "BatchWriteDone called more often than BatchWrite")
	}
}

// H_C08_quiesce: after producers and Stop have returned and the writer goroutine has had every chance to run,
// no object is left half-written (BatchWrite without commit + BatchWriteDone).
//
//verif:h prop=C08 p.sizes=1/1 preempt=1/2 cover=done p.maxfires=1/1 runs=30000000 timeout=900/900 steps=400000
func H_C08_quiesce() {
	store := NewMapDB()
	queueSize := verifrt.Choose("queueSize", 1+verifrt.Param("sizes", 1)) // 0 (unbuffered) .. sizes
	bw := kvstore.NewBatchedWriter(store, kvstore.WithQueueSize(queueSize), kvstore.WithBatchSize(1), kvstore.WithBatchTimeout(time.Second))
	objs := []*c08Obj{{id: 1, store: store, doneAfter: true}, {id: 2, store: store, doneAfter: true}}
	var wg sync.WaitGroup
	wg.Add(2)
	for _, o := range objs {
		go func(o *c08Obj) {
			defer wg.Done()
			verifrt.MustFinish()
			o.version.Add(1)
			bw.Enqueue(o)
		}(o)
	}
	wg.Add(1)
	go func() { // the stopper is a goroutine of its own: main only waits (its context switches are free)
		defer wg.Done()
		verifrt.MustFinish()
		bw.StopBatchWriter()
	}()
	verifrt.MustFinish()
	wg.Wait()            // no Enqueue or Stop call blocks forever
	bw.StopBatchWriter() // idempotent; quiesces a writer that was auto-started after the first Stop
	verifrt.Cover("done")
	for _, o := range objs {
		verifrt.Assert(o.writes == o.dones, "an object racing with StopBatchWriter was half-written (BatchWrite without BatchWriteDone)")
		if o.writes > 0 {
			v, err := store.Get([]byte{o.id})
			verifrt.Assert(err == nil && len(v) == 1 && int32(v[0]) == o.wrote, "an object passed to BatchWrite was not committed")
		} else {
			_, err := store.Get([]byte{o.id})
			verifrt.Assert(err != nil, "an object that was never passed to BatchWrite is in the store")
		}
	}
}

// H_C08_reenqueue: one object is modified and enqueued again by a second goroutine while the writer may be in
// the middle of writing it: the committed contents are those of the last Enqueue that returned before Stop.
//
//verif:h prop=C08 preempt=1/2 cover=done p.maxfires=1/1 runs=30000000 timeout=900/900 steps=400000
func H_C08_reenqueue() {
	store := NewMapDB()
	bw := kvstore.NewBatchedWriter(store, kvstore.WithQueueSize(2), kvstore.WithBatchSize(1+verifrt.Choose("batchSize", 2)), kvstore.WithBatchTimeout(time.Second))
	o := &c08Obj{id: 1, store: store, doneAfter: true}
	var wg sync.WaitGroup
	wg.Add(2)
	for k := 0; k < 2; k++ {
		go func() {
			defer wg.Done()
			verifrt.MustFinish()
			o.version.Add(1)
			bw.Enqueue(o)
		}()
	}
	verifrt.MustFinish()
	wg.Wait()
	bw.StopBatchWriter()
	verifrt.Cover("done")
	v, err := store.Get([]byte{o.id})
	verifrt.Assert(err == nil && len(v) == 1 && int32(v[0]) == o.version.Load(), "the committed contents are not those of the object at its last Enqueue (a re-enqueue during the write was dropped)")
	verifrt.Assert(o.dones == o.writes && o.doneAfter, "BatchWriteDone does not follow every committed BatchWrite")
}

// H_C08_flush: Flush while a backlog of at least one batch is queued (batch size 1 or 2, two or three objects):
// every object is passed to BatchWrite, committed and told BatchWriteDone by the time StopBatchWriter returns.
//
//verif:h prop=C08 preempt=1/2 cover=done p.maxfires=1/1 runs=30000000 timeout=900/900 steps=400000
func H_C08_flush() {
	store := NewMapDB()
	batchSize := 1 + verifrt.Choose("batchSize", 2)
	bw := kvstore.NewBatchedWriter(store, kvstore.WithQueueSize(3), kvstore.WithBatchSize(batchSize), kvstore.WithBatchTimeout(time.Second))
	n := 2 + verifrt.Choose("objects", 2)
	var objs []*c08Obj
	for k := 0; k < n; k++ {
		o := &c08Obj{id: byte(k + 1), store: store, doneAfter: true}
		o.version.Add(1)
		objs = append(objs, o)
		bw.Enqueue(o)
	}
	verifrt.MustFinish()
	bw.Flush()
	bw.StopBatchWriter()
	verifrt.Cover("done")
	for _, o := range objs {
		v, err := store.Get([]byte{o.id})
		verifrt.Assert(o.writes >= 1 && o.dones == o.writes && o.doneAfter, "an object enqueued before Flush and Stop was not written completely (BatchWrite, commit, BatchWriteDone)")
		verifrt.Assert(err == nil && len(v) == 1 && int32(v[0]) == o.version.Load(), "an object enqueued before Flush and Stop is not in the store")
	}
}
