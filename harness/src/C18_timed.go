//verif:pkg runtime/timed
package timed

import (
	"sync"
	"sync/atomic"
	"time"

	"verifrt"
)

// Property C18: timed Queue / Executor / TaskExecutor: never early, at most once, cancel honoured.
//
// The clock is symbolic (non-decreasing instants); scheduled times are now + a symbolic delay. The batch of
// goroutines (producer = main, one poller or 1..2 executor workers) is explored under the engine scheduler.

type c18Elem struct {
	sched       time.Time
	handle      *QueueElement[int]
	cancelled   bool // Cancel returned
	cancelRet   int  // stamp
	cancelClock time.Time
}

//verif:h prop=C18 p.elems=2/3 preempt=1/2 p.maxfires=2/3 cover=delivered,cancelled,shutdown-pending,dropped-by-flag runs=30000000 timeout=900/900 steps=400000
func H_C18_queue() {
	maxSize := verifrt.Choose("maxSize", 3) // 0 = unbounded, 1, 2
	var q *Queue[int]
	if maxSize > 0 {
		q = NewQueue[int](WithMaxSize[int](maxSize))
	} else {
		q = NewQueue[int]()
	}
	n := 1 + verifrt.Choose("elems", verifrt.Param("elems", 2))
	elems := make([]*c18Elem, n+1) // values 1..n
	var delivered [4]atomic.Int32
	var pollInvoked [4]int // stamp of the Poll invocation that delivered value v
	var early atomic.Bool
	var wg sync.WaitGroup
	wg.Add(1)
	go func() { // the poller
		defer wg.Done()
		verifrt.MustFinish()
		for {
			inv := verifrt.Stamp()
			v := q.Poll(true)
			if v == 0 {
				return
			}
			now := time.Now()
			delivered[v].Add(1)
			pollInvoked[v] = inv
			if sched, ok := verifrt.GhostGet("sched:" + string(rune('0'+v))).(time.Time); ok && verifrt.GhostInt("ignoreTimeouts") == 0 {
				if now.Before(sched) {
					early.Store(true)
				}
			}
		}
	}()
	for v := 1; v <= n; v++ {
		d := verifrt.I64("delay")
		verifrt.Assume(d >= 0 && d < 1<<40)
		e := &c18Elem{sched: time.Now().Add(time.Duration(d))}
		elems[v] = e
		verifrt.GhostPut("sched:"+string(rune('0'+v)), e.sched)
		e.handle = q.Add(v, e.sched)
		verifrt.Assert(e.handle != nil, "Add refused an element before shutdown")
	}
	// optionally cancel one element, before or after the shutdown
	toCancel := verifrt.Choose("cancel", n+1)
	cancelAfterShutdown := toCancel > 0 && verifrt.Choose("cancelAfterShutdown", 2) == 1
	doCancel := func() {
		elems[toCancel].handle.Cancel()
		elems[toCancel].cancelClock = time.Now()
		elems[toCancel].cancelled = true
		elems[toCancel].cancelRet = verifrt.Stamp()
		verifrt.Cover("cancelled")
	}
	if toCancel > 0 && !cancelAfterShutdown {
		doCancel()
	}
	flags := ShutdownFlag(0)
	switch verifrt.Choose("flags", 4) {
	case 1:
		flags = CancelPendingElements
		verifrt.Cover("dropped-by-flag")
	case 2:
		flags = IgnorePendingTimeouts
		verifrt.GhostPut("ignoreTimeouts", 1)
	case 3:
		flags = PanicOnModificationsAfterShutdown // must not change when pending elements are delivered
	}
	q.Shutdown(flags)
	if cancelAfterShutdown {
		doCancel()
	}
	if flags == PanicOnModificationsAfterShutdown {
		panicked := false
		func() {
			defer func() { panicked = recover() != nil }()
			q.Add(9, time.Now())
		}()
		verifrt.Assert(panicked, "Add after Shutdown(PanicOnModificationsAfterShutdown) did not panic")
	} else {
		verifrt.Assert(q.Add(9, time.Now()) == nil, "Add accepted an element after shutdown")
	}
	verifrt.MustFinish()
	wg.Wait() // the poller drains what is still pending and then sees the shutdown
	verifrt.Assert(!early.Load(), "an element was delivered before its scheduled time")
	for v := 1; v <= n; v++ {
		e := elems[v]
		got := delivered[v].Load()
		verifrt.Assert(got <= 1, "an element was delivered more than once")
		if got == 1 {
			verifrt.Cover("delivered")
		}
		if e.cancelled && got == 1 {
			verifrt.Assert(e.cancelRet > pollInvoked[v], "an element was delivered by a Poll that started after its Cancel had returned")
			// Cancel returned at clock instant cancelClock; a delivery can only happen at or after the scheduled
			// time, so if Cancel returned strictly before it the element was cancelled before its delivery
			if flags != IgnorePendingTimeouts { // with that flag a delivery may precede the scheduled time (and the Cancel)
				verifrt.Assert(!e.cancelClock.Before(e.sched), "an element whose Cancel returned before its scheduled time was delivered anyway")
			}
		}
		droppedBySize := e.handle.rawElem.Index() == -1 && maxSize > 0 && n > maxSize
		if !e.cancelled && flags != CancelPendingElements && !droppedBySize {
			verifrt.Assert(got == 1, "an element that was neither cancelled nor dropped was never delivered")
			if flags == 0 {
				verifrt.Cover("shutdown-pending")
			}
		}
	}
}

//verif:h prop=C18 p.workers=1/2 preempt=1/2 p.maxfires=2/3 cover=ran,cancelled runs=30000000 timeout=900/900 steps=400000
func H_C18_executor() {
	workers := 1 + verifrt.Choose("workers", verifrt.Param("workers", 1))
	ex := NewExecutor(workers)
	var ran [3]atomic.Int32
	var early atomic.Bool
	sched := make([]time.Time, 3)
	ignore := verifrt.Choose("ignoreTimeouts", 2) == 1
	tasks := make([]*ScheduledTask, 3)
	for k := 1; k <= 2; k++ {
		k := k
		d := verifrt.I64("delay")
		verifrt.Assume(d >= 0 && d < 1<<40)
		sched[k] = time.Now().Add(time.Duration(d))
		tasks[k] = ex.ExecuteAt(func() {
			if !ignore && time.Now().Before(sched[k]) {
				early.Store(true)
			}
			ran[k].Add(1)
		}, sched[k])
	}
	cancelled := verifrt.Choose("cancel", 3)
	var cancelRet int
	if cancelled > 0 {
		tasks[cancelled].Cancel()
		cancelRet = verifrt.Stamp()
		_ = cancelRet
		verifrt.Cover("cancelled")
	}
	verifrt.MustFinish()
	if ignore {
		ex.Shutdown(IgnorePendingTimeouts)
	} else {
		ex.Shutdown() // waits for the workers; pending tasks still run at their time
	}
	verifrt.Assert(!early.Load(), "a task ran before its scheduled time")
	for k := 1; k <= 2; k++ {
		got := ran[k].Load()
		verifrt.Assert(got <= 1, "a task ran more than once")
		if k != cancelled {
			verifrt.Assert(got == 1, "a task that was neither cancelled nor dropped never ran although Shutdown (without the cancel flag) returned")
			verifrt.Cover("ran")
		}
	}
}

// H_C18_executor2: two workers, two tasks that are due at once, Shutdown with / without IgnorePendingTimeouts: every
// task runs exactly once and Shutdown returns (a worker left parked in Poll ends in the deadlock detector).
//
//verif:h prop=C18 preempt=1/2 p.maxfires=1/2 cover=ran runs=30000000 timeout=900/900 steps=400000
func H_C18_executor2() {
	ex := NewExecutor(2)
	var ran [2]atomic.Int32
	ignore := verifrt.Choose("ignoreTimeouts", 2) == 1
	now := time.Now()
	for k := 0; k < 2; k++ {
		k := k
		ex.ExecuteAt(func() { ran[k].Add(1) }, now)
	}
	verifrt.MustFinish()
	if ignore {
		ex.Shutdown(IgnorePendingTimeouts)
	} else {
		ex.Shutdown()
	}
	for k := 0; k < 2; k++ {
		verifrt.Assert(ran[k].Load() == 1, "with two workers a task did not run exactly once although Shutdown (without the cancel flag) returned")
	}
	verifrt.Cover("ran")
}

// H_C18_taskexecutor: at most one pending task per identifier, re-scheduling replaces the pending task (also
// while the callback of the previous one is running), Cancel(id) is true exactly when it prevented a run.
//
//verif:h prop=C18 preempt=1/2 p.maxfires=2/3 cover=replaced,cancel-true,cancel-false,resched-in-callback runs=30000000 timeout=900/900 steps=400000
func H_C18_taskexecutor() {
	te := NewTaskExecutor[int](1)
	var ran [4]atomic.Int32
	var started [4]atomic.Bool
	at := func(d int64) time.Time { return time.Now().Add(time.Duration(d)) }
	d1 := verifrt.I64("delay")
	verifrt.Assume(d1 >= 0 && d1 < 1<<40)
	scenario := verifrt.Choose("scenario", 3)
	verifrt.MustFinish()
	switch scenario {
	case 0: // schedule, schedule again for the same identifier: the first must not start once the second call returned
		te.ExecuteAt(1, func() { verifrt.GhostPut("startA", verifrt.Stamp()); ran[0].Add(1) }, at(d1))
		te.ExecuteAt(1, func() { ran[1].Add(1) }, at(d1))
		replaced := verifrt.Stamp()
		verifrt.Cover("replaced")
		te.Shutdown()
		verifrt.Assert(ran[1].Load() == 1, "the task that replaced a pending task of the same identifier never ran")
		verifrt.Assert(ran[0].Load() == 0 || verifrt.GhostInt("startA") < replaced, "scheduling an identifier again did not replace its pending task (the old task started afterwards)")
	case 1: // Cancel(id)
		te.ExecuteAt(1, func() { started[0].Store(true); ran[0].Add(1) }, at(d1))
		c := te.Cancel(1)
		te.Shutdown()
		if c {
			verifrt.Cover("cancel-true")
			verifrt.Assert(ran[0].Load() == 0, "Cancel(id) returned true although the task ran")
		} else {
			verifrt.Cover("cancel-false")
			verifrt.Assert(ran[0].Load() == 1, "Cancel(id) returned false although it prevented the pending task from running")
		}
		verifrt.Assert(!te.Cancel(2), "Cancel of an identifier that was never scheduled returned true")
	case 2: // the callback re-schedules its own identifier; a later ExecuteAt for it must still replace that task
		rescheduled := make(chan struct{})
		te.ExecuteAt(1, func() {
			ran[0].Add(1)
			te.ExecuteAt(1, func() { verifrt.GhostPut("startB", verifrt.Stamp()); ran[1].Add(1) }, at(1<<39))
			verifrt.Cover("resched-in-callback")
			close(rescheduled)
		}, at(d1))
		<-rescheduled                                    // time passes until the first callback has run and re-scheduled its identifier
		te.ExecuteAt(1, func() { ran[2].Add(1) }, at(0)) // replaces the task scheduled by the callback
		replaced := verifrt.Stamp()
		te.Shutdown()
		verifrt.Assert(ran[0].Load() == 1 && ran[2].Load() == 1, "a scheduled task never ran")
		verifrt.Assert(ran[1].Load() == 0 || verifrt.GhostInt("startB") < replaced, "two tasks of one identifier were pending at the same time (the replaced one started after it had been replaced)")
	}
}
