//verif:pkg runtime/workerpool
package workerpool

import (
	"sync"
	"sync/atomic"

	"verifrt"
)

// Property C16: WorkerPool conserves tasks and always shuts down.
//
// The engine explores every interleaving (within the pre-emption bound) of submitters, Shutdown, the
// dispatcher and the workers of a real pool. A task that is counted but never dispatched, or a shutdown that
// never completes, ends the run in the deadlock detector: every wait below is must-finish.

type c16Task struct {
	ran      atomic.Int32
	runStamp int
	subStamp int // stamp taken after Submit returned
}

//verif:h prop=C16 p.workers=1/2 p.second=1/2 preempt=1/2 cover=done,ran runs=30000000 timeout=900/900 steps=400000
func H_C16_submit_shutdown() {
	workers := 1 + verifrt.Choose("workers", verifrt.Param("workers", 1))
	cancel := verifrt.Choose("cancel", 2) == 1
	wp := New("p", WithWorkerCount(workers), WithCancelPendingTasksOnShutdown(cancel)).Start()
	tasks := []*c16Task{{}, {}, {}}
	var shutdownStamp atomic.Int64
	submit := func(t *c16Task, inner func()) {
		wp.Submit(func() {
			t.ran.Add(1)
			t.runStamp = verifrt.Stamp()
			if inner != nil {
				inner()
			}
		})
		t.subStamp = verifrt.Stamp()
	}
	var wg sync.WaitGroup
	wg.Add(2)
	go func() { // submitter 1: a task that submits another task
		defer wg.Done()
		verifrt.MustFinish()
		submit(tasks[0], func() { submit(tasks[2], nil) })
	}()
	second := verifrt.Choose("second", verifrt.Param("second", 1)) == 1
	if second {
		wg.Add(1)
		go func() {
			defer wg.Done()
			verifrt.MustFinish()
			submit(tasks[1], nil)
		}()
	}
	go func() {
		defer wg.Done()
		verifrt.MustFinish()
		shutdownStamp.Store(int64(verifrt.Stamp()))
		wp.Shutdown()
	}()
	verifrt.MustFinish()
	wg.Wait()
	wp.ShutdownComplete.Wait()          // "Shutdown followed by waiting for shutdown completion always terminates"
	wp.PendingTasksCounter.WaitIsZero() // a task that was counted but never dispatched hangs here
	done := verifrt.Stamp()
	verifrt.Cover("done")
	verifrt.Assert(wp.PendingTasksCounter.Get() == 0, "pending-task counter does not return to zero")
	verifrt.Assert(wp.Queue.Size() == 0, "a task was accepted into the queue but never dispatched")
	all := true
	for i, t := range tasks {
		n := t.ran.Load()
		verifrt.Assert(n <= 1, "a task ran more than once")
		if n == 1 {
			verifrt.Cover("ran")
			verifrt.Assert(t.runStamp < done, "a task ran after shutdown completion")
		} else {
			all = false
		}
		// without cancel-on-shutdown every task whose Submit returned before Shutdown was invoked must have run
		if !cancel && i < 2 && (i == 0 || second) && t.subStamp != 0 && int64(t.subStamp) < shutdownStamp.Load() {
			verifrt.Assert(n == 1, "a task accepted before Shutdown was never run")
		}
	}
	if all {
		verifrt.Cover("all-ran")
	}
}

// H_C16_restart: Shutdown, wait, Start again, Submit: the pool works again and conserves the task.
//
//verif:h prop=C16 preempt=1/2 cover=restarted runs=30000000 timeout=900/900 steps=400000
func H_C16_restart() {
	wp := New("p", WithWorkerCount(1)).Start()
	var ran atomic.Int32
	wp.Submit(func() { ran.Add(1) })
	wp.Shutdown()
	verifrt.MustFinish()
	if verifrt.Choose("restartAtOnce", 2) == 0 {
		wp.ShutdownComplete.Wait()
		wp.PendingTasksCounter.WaitIsZero()
		verifrt.Assert(ran.Load() == 1, "a task accepted before Shutdown (no cancel option) was never run")
	}
	// Start waits for the previous generation to finish by itself: restarting while it is still draining is fine
	wp.Start()
	wp.Submit(func() { ran.Add(1) })
	wp.PendingTasksCounter.WaitIsZero()
	verifrt.Assert(ran.Load() == 2, "a task submitted after a restart was not run (or a task of the previous generation was lost)")
	wp.Shutdown()
	wp.ShutdownComplete.Wait()
	verifrt.Cover("restarted")
}

// H_C16_group: Group.WaitChildren returns only when no pool below the group has pending tasks.
//
//verif:h prop=C16 preempt=1/2 cover=waited runs=30000000 timeout=900/900 steps=400000
func H_C16_group() {
	g := NewGroup("g")
	sub := g.CreateGroup("sub")
	p := sub.CreatePool("p", WithWorkerCount(1))
	var ran atomic.Int32
	var wg sync.WaitGroup
	wg.Add(1)
	go func() {
		defer wg.Done()
		verifrt.MustFinish()
		p.Submit(func() { ran.Add(1) })
	}()
	verifrt.MustFinish()
	early := verifrt.Choose("waitBeforeSubmitReturns", 2) == 1
	if !early {
		wg.Wait()
	}
	// a task that is pending when WaitChildren is called (the pool's counter already shows it) must have finished by
	// the time WaitChildren returns, also while Submit is still on its way back
	pendingAtCall := p.PendingTasksCounter.Get() >= 1
	g.WaitChildren()
	if pendingAtCall {
		verifrt.Assert(ran.Load() == 1, "Group.WaitChildren returned while a task that the pool already counted as pending had not finished")
	}
	// the counter chain pool -> sub-group -> group: if the pool has pending tasks, the group must see a pending child
	if !early {
		verifrt.Assert(p.PendingTasksCounter.Get() == 0 && ran.Load() == 1, "Group.WaitChildren returned while a pool below the group still had pending tasks")
	}
	wg.Wait()
	g.WaitChildren()
	verifrt.Assert(p.PendingTasksCounter.Get() == 0 && sub.PendingChildrenCounter.Get() == 0 && ran.Load() == 1, "Group.WaitChildren returned while a pool below the group still had pending tasks")
	verifrt.Cover("waited")
	g.Shutdown()
	p.ShutdownComplete.Wait()
	verifrt.Assert(g.IsShutdown() && sub.IsShutdown() && !p.IsRunning(), "Group.Shutdown did not shut down the pools and groups below it")
}

// H_C16_group_window: Submit racing with WaitChildren at a higher pre-emption bound and nothing else: a task that
// the pool already counts as pending when WaitChildren is called has finished when it returns (the pool's counter
// and the group's view of it change in one step).
//
//verif:h prop=C16 preempt=2/3 cover=pending-at-call,idle-at-call runs=30000000 timeout=900/900 steps=400000
func H_C16_group_window() {
	g := NewGroup("g")
	p := g.CreatePool("p", WithWorkerCount(1))
	var ran atomic.Int32
	var wg sync.WaitGroup
	wg.Add(1)
	go func() { defer wg.Done(); verifrt.MustFinish(); p.Submit(func() { ran.Add(1) }) }()
	verifrt.MustFinish()
	pendingAtCall := p.PendingTasksCounter.Get() >= 1
	g.WaitChildren()
	if pendingAtCall {
		verifrt.Cover("pending-at-call")
		verifrt.Assert(ran.Load() == 1, "Group.WaitChildren returned while a task that the pool already counted as pending had not finished")
	} else {
		verifrt.Cover("idle-at-call")
	}
	wg.Wait()
	p.PendingTasksCounter.WaitIsZero()
}

// H_C16_group_tree: a three-level group tree; WaitChildren on the middle group returns only when the pool below
// the leaf group has no pending tasks; an explicit cancel-on-shutdown=false option given to CreatePool is
// honoured (queued tasks run on Shutdown).
//
//verif:h prop=C16 preempt=1/2 cover=mid-waited,ran-on-shutdown runs=30000000 timeout=900/900 steps=400000
func H_C16_group_tree() {
	root := NewGroup("root")
	mid := root.CreateGroup("mid")
	leaf := mid.CreateGroup("leaf")
	cancelOpt := verifrt.Choose("explicitCancelOff", 2) == 1
	var p *WorkerPool
	if cancelOpt {
		p = leaf.CreatePool("p", WithWorkerCount(1), WithCancelPendingTasksOnShutdown(false))
	} else {
		p = leaf.CreatePool("p", WithWorkerCount(1))
	}
	var ran atomic.Int32
	verifrt.MustFinish()
	if verifrt.Choose("scenario", 2) == 0 {
		p.Submit(func() { ran.Add(1) })
		mid.WaitChildren()
		verifrt.Assert(p.PendingTasksCounter.Get() == 0 && ran.Load() == 1, "WaitChildren on a middle group returned while a pool below it still had pending tasks")
		verifrt.Cover("mid-waited")
		root.WaitChildren()
	} else if cancelOpt {
		p.Submit(func() { ran.Add(1) })
		p.Submit(func() { ran.Add(1) })
		p.Shutdown()
		p.ShutdownComplete.Wait()
		p.PendingTasksCounter.WaitIsZero()
		verifrt.Assert(ran.Load() == 2, "a pool created with cancel-on-shutdown switched off cancelled accepted tasks on Shutdown")
		verifrt.Cover("ran-on-shutdown")
	}
	root.Shutdown()
	p.ShutdownComplete.Wait()
}
