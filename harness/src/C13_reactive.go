//verif:pkg ds/reactive
package reactive

import (
	"sync"
	"sync/atomic"

	"verifrt"

	"github.com/iotaledger/hive.go/ds"
)

// Property C13: reactive subscribers see every change exactly once, in order.

type c13Pair struct{ prev, next uint8 }

// H_C13_variable_hist: all histories of p.writes writes (Set / Compute, symbolic values) with one subscriber
// that registers and unsubscribes at chosen positions; its log must be: the state at subscription time, then
// every later change exactly once, each callback's previous value equal to the preceding callback's new value.
//
//verif:h prop=C13 p.writes=3/4 cover=initial,chain,unsubscribed,nochange,transformed runs=5000000 timeout=900/900
func H_C13_variable_hist() {
	// optionally a variable with a transformation function ("never decreases"): subscribers must only see
	// changes of the stored (transformed) value
	monotone := verifrt.Choose("transformation", 2) == 1
	var v Variable[uint8]
	if monotone {
		v = NewVariable[uint8](func(cur, nv uint8) uint8 {
			if nv > cur {
				return nv
			}

			return cur
		})
		verifrt.Cover("transformed")
	} else {
		v = NewVariable[uint8]()
	}
	n := verifrt.Param("writes", 3)
	subAt := verifrt.Choose("subscribeBefore", n+1)                  // registered before write #subAt
	unsubAt := subAt + verifrt.Choose("unsubscribeAfter", n+2-subAt) // unsubscribed before write #unsubAt (n+1: never)
	withZero := verifrt.Choose("triggerWithInitialZero", 2) == 1
	var log, want []c13Pair
	var unsub func()
	cur := uint8(0)
	// a second, permanent observer: whatever the first subscriber does (also unsubscribing twice), it sees every change
	var obs, wantObs []c13Pair
	v.OnUpdate(func(p, nx uint8) { obs = append(obs, c13Pair{p, nx}) })
	for w := 0; w <= n; w++ {
		if w == subAt {
			unsub = v.OnUpdate(func(p, nx uint8) { log = append(log, c13Pair{p, nx}) }, withZero)
			if cur != 0 || withZero {
				want = append(want, c13Pair{0, cur})
				verifrt.Cover("initial")
			}
		}
		if w == unsubAt && unsub != nil {
			unsub()
			if verifrt.Choose("unsubscribeTwice", 2) == 1 {
				unsub() // idempotent
			}
			unsub = nil
			verifrt.Cover("unsubscribed")
		}
		if w == n {
			break
		}
		nv := verifrt.U8("value")
		var prev uint8
		if verifrt.Choose("viaCompute", 2) == 1 {
			prev = v.Compute(func(uint8) uint8 { return nv })
		} else {
			prev = v.Set(nv)
		}
		verifrt.Assert(prev == cur, "Set/Compute returned a previous value different from the last written one")
		if monotone && nv < cur {
			nv = cur // the transformation keeps the larger value
		}
		if nv != cur {
			if unsub != nil {
				want = append(want, c13Pair{cur, nv})
				verifrt.Cover("chain")
			}
			wantObs = append(wantObs, c13Pair{cur, nv})
			cur = nv
		} else {
			verifrt.Cover("nochange")
		}
		verifrt.Assert(v.Get() == cur, "Get differs from the last written value")
	}
	verifrt.Assert(len(log) == len(want), "a subscriber did not observe exactly the state at subscription time followed by every later change once")
	sameObs := len(obs) == len(wantObs)
	for k := range obs {
		if k < len(wantObs) {
			sameObs = verifrt.And(sameObs, obs[k] == wantObs[k])
		}
	}
	verifrt.Assert(sameObs, "a permanent subscriber missed (or saw twice) a change while another subscriber registered and unsubscribed")
	for k := range log {
		if k < len(want) {
			verifrt.Assert(log[k] == want[k], "a callback reported a (previous, new) pair that differs from the change that happened")
		}
		if k > 0 {
			verifrt.Assert(log[k].prev == log[k-1].next, "a callback's previous value differs from the preceding callback's new value")
		}
	}
	if unsub != nil && len(log) > 0 {
		verifrt.Assert(log[len(log)-1].next == v.Get(), "the last reported value differs from the final value")
	}
}

// H_C13_set_hist: reactive Set; folding the reported mutations reproduces the contents.
//
//verif:h prop=C13 p.ops=2/3 cover=add,delete,apply,replace,compute,late-subscriber runs=5000000 timeout=900/900
func H_C13_set_hist() {
	u := [3]uint8{verifrt.U8("k0"), verifrt.U8("k1"), verifrt.U8("k2")}
	verifrt.Assume(u[0] != u[1] && u[1] != u[2] && u[0] != u[2])
	s := NewSet[uint8]()
	subset := func(name string) ds.Set[uint8] {
		r := ds.NewSet[uint8]()
		mask := verifrt.Choose(name, 8)
		for i := 0; i < 3; i++ {
			if mask&(1<<i) != 0 {
				r.Add(u[i])
			}
		}

		return r
	}
	n := verifrt.Param("ops", 2)
	subAt := verifrt.Choose("subscribeBefore", n+1)
	folded := ds.NewSet[uint8]()
	subscribed := false
	calls := 0
	for step := 0; step <= n; step++ {
		if step == subAt {
			s.OnUpdate(func(m ds.SetMutations[uint8]) {
				calls++
				m.AddedElements().Range(func(e uint8) {
					verifrt.Assert(!m.DeletedElements().Has(e), "a reported mutation lists an element as both added and deleted")
					folded.Add(e)
				})
				m.DeletedElements().Range(func(e uint8) { folded.Delete(e) })
			})
			subscribed = true
			if step > 0 {
				verifrt.Cover("late-subscriber")
			}
			verifrt.Assert(folded.Equals(s.ReadOnly()) || s.Size() == 0 && folded.Size() == 0, "the first callback does not report the contents at subscription time")
		}
		if step == n {
			break
		}
		switch verifrt.Choose("op", 5) {
		case 0:
			s.Add(u[verifrt.Choose("key", 3)])
			verifrt.Cover("add")
		case 1:
			s.Delete(u[verifrt.Choose("key", 3)])
			verifrt.Cover("delete")
		case 2:
			a, d := subset("added"), subset("deleted")
			a.Range(func(e uint8) { verifrt.Assume(!d.Has(e)) })
			s.Apply(ds.NewSetMutations[uint8]().WithAddedElements(a).WithDeletedElements(d))
			verifrt.Cover("apply")
		case 3:
			s.Replace(subset("other"))
			verifrt.Cover("replace")
		case 4:
			a := subset("added")
			s.Compute(func(ds.ReadableSet[uint8]) ds.SetMutations[uint8] {
				return ds.NewSetMutations[uint8]().WithAddedElements(a)
			})
			verifrt.Cover("compute")
		}
		if subscribed {
			verifrt.Assert(folded.Size() == s.Size() && folded.HasAll(s.ReadOnly()), "folding the reported set mutations does not reproduce the set's contents")
		}
	}
}

// H_C13_event: reactive one-shot Event.
//
//verif:h prop=C13 cover=done
func H_C13_event() {
	e := NewEvent()
	var before, after int
	e.OnTrigger(func() { before++ })
	first := verifrt.Choose("triggers", 3)
	for k := 0; k < first; k++ {
		e.Trigger()
	}
	e.OnTrigger(func() { after++ })
	verifrt.Assert(e.WasTriggered() == (first > 0), "WasTriggered differs from the history")
	e.Trigger()
	e.Set(false) // an Event never goes back, and writing to it again does not re-fire its subscribers
	e.Set(true)
	e.Trigger()
	verifrt.Assert(before == 1 && after == 1, "an Event subscriber was not called exactly once")
	verifrt.Cover("done")
}

// H_C13_conc: two writers and a goroutine that subscribes and later unsubscribes. Callbacks of the one
// subscription never overlap, none starts after unsubscribe returned, and the log is a consistent chain.
//
//verif:h prop=C13 preempt=2/3 cover=done,saw-update runs=30000000 timeout=900/900 steps=400000
func H_C13_conc() {
	v := NewVariable[uint8]()
	var inCallback, overlap, late atomic.Bool
	var unsubscribed atomic.Bool
	var log []c13Pair // only touched inside the (serialised) callback and after quiescence
	var wg sync.WaitGroup
	wg.Add(3)
	go func() { defer wg.Done(); verifrt.MustFinish(); v.Compute(func(c uint8) uint8 { return c + 1 }) }()
	go func() { defer wg.Done(); verifrt.MustFinish(); v.Compute(func(c uint8) uint8 { return c + 2 }) }()
	keep := verifrt.Choose("keepSubscribed", 2) == 1
	go func() {
		defer wg.Done()
		verifrt.MustFinish()
		unsub := v.OnUpdate(func(p, n uint8) {
			if inCallback.Swap(true) {
				overlap.Store(true)
			}
			if unsubscribed.Load() {
				late.Store(true)
			}
			log = append(log, c13Pair{p, n})
			inCallback.Store(false)
		})
		if !keep {
			unsub()
			unsubscribed.Store(true)
		}
	}()
	verifrt.MustFinish()
	wg.Wait()
	verifrt.Cover("done")
	verifrt.Assert(!overlap.Load(), "two callbacks of one subscription ran concurrently")
	verifrt.Assert(!late.Load(), "a callback started after its unsubscribe call had returned")
	for k := range log {
		if k > 0 {
			verifrt.Cover("saw-update")
			verifrt.Assert(log[k].prev == log[k-1].next, "a callback's previous value differs from the preceding callback's new value")
		}
	}
	final := v.Get()
	verifrt.Assert(final == 3, "a concurrent Compute update was lost")
	if keep {
		verifrt.Assert(len(log) > 0 && log[len(log)-1].next == final, "the last value reported to a live subscriber differs from the final value")
	}
}

// H_C13_set_conc: a subscriber of a reactive Set registering while two writers mutate it.
//
//verif:h prop=C13 preempt=2/3 cover=done runs=30000000 timeout=900/900 steps=400000
func H_C13_set_conc() {
	s := NewSet[uint8](1)
	folded := ds.NewSet[uint8]()
	var wg sync.WaitGroup
	wg.Add(3)
	go func() { defer wg.Done(); verifrt.MustFinish(); s.Add(2) }()
	go func() { defer wg.Done(); verifrt.MustFinish(); s.Replace(ds.NewSet[uint8](2, 3)) }()
	go func() {
		defer wg.Done()
		verifrt.MustFinish()
		s.OnUpdate(func(m ds.SetMutations[uint8]) {
			m.AddedElements().Range(func(e uint8) { folded.Add(e) })
			m.DeletedElements().Range(func(e uint8) { folded.Delete(e) })
		})
	}()
	verifrt.MustFinish()
	wg.Wait()
	verifrt.Cover("done")
	verifrt.Assert(folded.Size() == s.Size() && folded.HasAll(s.ReadOnly()), "folding the mutations reported to a concurrently registered subscriber does not reproduce the set's contents")
}
