//verif:pkg lo
package lo

import (
	"context"
	"sync"
	"sync/atomic"

	"verifrt"
)

// Litmus programs for the engine's models of the synchronisation primitives (gosym litmus): each records one
// outcome string. The engine enumerates every schedule; the native build runs the program many times. Every outcome
// seen natively must be among the engine's outcomes (the model must not be narrower than the real primitives).

func litOut(s string) { verifrt.Observe("out", s) }

func b2s(b bool) string {
	if b {
		return "1"
	}

	return "0"
}

//verif:h prop=LITMUS preempt=6
func L_mutex_counter() {
	var mu sync.Mutex
	n := 0
	var wg sync.WaitGroup
	wg.Add(2)
	for k := 0; k < 2; k++ {
		go func() { defer wg.Done(); mu.Lock(); n++; mu.Unlock() }()
	}
	wg.Wait()
	litOut(string(rune('0' + n)))
}

//verif:h prop=LITMUS preempt=6
func L_trylock() {
	var mu sync.Mutex
	var got atomic.Int32
	var wg sync.WaitGroup
	wg.Add(2)
	for k := 0; k < 2; k++ {
		go func() {
			defer wg.Done()
			if mu.TryLock() {
				got.Add(1)
			}
		}()
	}
	wg.Wait()
	litOut(string(rune('0' + got.Load())))
}

//verif:h prop=LITMUS preempt=6
func L_cas() {
	var x atomic.Int32
	var wins atomic.Int32
	var wg sync.WaitGroup
	wg.Add(2)
	for k := 0; k < 2; k++ {
		go func() {
			defer wg.Done()
			if x.CompareAndSwap(0, 1) {
				wins.Add(1)
			}
		}()
	}
	wg.Wait()
	litOut(string(rune('0' + wins.Load())))
}

//verif:h prop=LITMUS preempt=6
func L_once() {
	var once sync.Once
	var runs atomic.Int32
	var seen [2]int32
	var wg sync.WaitGroup
	wg.Add(2)
	for k := 0; k < 2; k++ {
		go func(k int) {
			defer wg.Done()
			once.Do(func() { runs.Add(1) })
			seen[k] = runs.Load() // Do returns only after the function has completed
		}(k)
	}
	wg.Wait()
	litOut(string(rune('0'+runs.Load())) + string(rune('0'+seen[0])) + string(rune('0'+seen[1])))
}

//verif:h prop=LITMUS preempt=6
func L_chan_unbuffered() {
	c := make(chan int)
	var order atomic.Int32
	var sentAt, recvAt int32
	var wg sync.WaitGroup
	wg.Add(1)
	go func() { defer wg.Done(); c <- 7; sentAt = order.Add(1) }()
	v := <-c
	recvAt = order.Add(1)
	wg.Wait()
	_ = sentAt
	_ = recvAt
	litOut(string(rune('0' + v)))
}

//verif:h prop=LITMUS preempt=6
func L_chan_buffered_close() {
	c := make(chan int, 1)
	c <- 3
	close(c)
	a, ok1 := <-c
	b, ok2 := <-c
	litOut(string(rune('0'+a)) + b2s(ok1) + string(rune('0'+b)) + b2s(ok2))
}

//verif:h prop=LITMUS preempt=6
func L_select_two_ready() {
	a := make(chan int, 1)
	b := make(chan int, 1)
	a <- 1
	b <- 2
	select {
	case v := <-a:
		litOut("a" + string(rune('0'+v)))
	case v := <-b:
		litOut("b" + string(rune('0'+v)))
	}
}

//verif:h prop=LITMUS preempt=6
func L_select_default_race() {
	c := make(chan int, 1)
	var wg sync.WaitGroup
	wg.Add(1)
	go func() { defer wg.Done(); c <- 1 }()
	select {
	case <-c:
		litOut("recv")
	default:
		litOut("default")
	}
	wg.Wait()
}

//verif:h prop=LITMUS preempt=6
func L_cond_signal() {
	var mu sync.Mutex
	cond := sync.NewCond(&mu)
	ready := false
	var wg sync.WaitGroup
	wg.Add(1)
	go func() {
		defer wg.Done()
		mu.Lock()
		for !ready {
			cond.Wait()
		}
		mu.Unlock()
	}()
	mu.Lock()
	ready = true
	cond.Signal()
	mu.Unlock()
	wg.Wait()
	litOut("done")
}

//verif:h prop=LITMUS preempt=6
func L_cond_broadcast() {
	var mu sync.Mutex
	cond := sync.NewCond(&mu)
	ready := false
	woken := 0
	var wg sync.WaitGroup
	wg.Add(2)
	for k := 0; k < 2; k++ {
		go func() {
			defer wg.Done()
			mu.Lock()
			for !ready {
				cond.Wait()
			}
			woken++
			mu.Unlock()
		}()
	}
	mu.Lock()
	ready = true
	cond.Broadcast()
	mu.Unlock()
	wg.Wait()
	litOut(string(rune('0' + woken)))
}

//verif:h prop=LITMUS preempt=6
func L_rwmutex_readers() {
	var mu sync.RWMutex
	var inside, maxInside atomic.Int32
	var wg sync.WaitGroup
	wg.Add(2)
	for k := 0; k < 2; k++ {
		go func() {
			defer wg.Done()
			mu.RLock()
			n := inside.Add(1)
			for {
				m := maxInside.Load()
				if n <= m || maxInside.CompareAndSwap(m, n) {
					break
				}
			}
			inside.Add(-1)
			mu.RUnlock()
		}()
	}
	wg.Wait()
	litOut(string(rune('0' + maxInside.Load())))
}

//verif:h prop=LITMUS preempt=6
func L_rwmutex_writer_excludes() {
	var mu sync.RWMutex
	x := 0
	var saw atomic.Int32
	var wg sync.WaitGroup
	wg.Add(2)
	go func() { defer wg.Done(); mu.Lock(); x = 1; x = 2; mu.Unlock() }()
	go func() { defer wg.Done(); mu.RLock(); saw.Store(int32(x)); mu.RUnlock() }()
	wg.Wait()
	litOut(string(rune('0' + saw.Load())))
}

//verif:h prop=LITMUS preempt=6
func L_context_cancel() {
	parent, cancel := context.WithCancel(context.Background())
	child, cancelChild := context.WithCancel(parent)
	defer cancelChild()
	var wg sync.WaitGroup
	wg.Add(1)
	go func() { defer wg.Done(); <-child.Done() }()
	cancel()
	wg.Wait()
	litOut(b2s(child.Err() != nil) + b2s(parent.Err() != nil))
}

//verif:h prop=LITMUS preempt=6
func L_atomic_value_publish() {
	var p atomic.Pointer[int]
	var wg sync.WaitGroup
	wg.Add(1)
	go func() { defer wg.Done(); v := 5; p.Store(&v) }()
	got := 0
	if q := p.Load(); q != nil {
		got = *q
	}
	wg.Wait()
	litOut(string(rune('0' + got)))
}

//verif:h prop=LITMUS preempt=6
func L_waitgroup_reuse() {
	var wg sync.WaitGroup
	total := 0
	var mu sync.Mutex
	for round := 0; round < 2; round++ {
		wg.Add(2)
		for k := 0; k < 2; k++ {
			go func() { defer wg.Done(); mu.Lock(); total++; mu.Unlock() }()
		}
		wg.Wait()
	}
	litOut(string(rune('0' + total)))
}
