//verif:pkg app/daemon
package daemon

import (
	"context"
	"sync"
	"sync/atomic"

	"verifrt"

	"github.com/iotaledger/hive.go/ierrors"
)

// Property C20: the daemon stops background workers in descending shutdown order.
//
// Workers have symbolic orders (ties, negatives and gaps are chosen by the solver through the sort
// comparisons). Ghost state records which workers started / returned; when a worker is about to return, no
// started, not yet returned worker of lower order may have a cancelled context.

type c20Worker struct {
	name  string
	order int
	mode  int // 0: wait for ctx, return; 1: wait for ctx, then dawdle; 2: return early
}

var c20Names = [4]string{"w0", "w1", "w2", "w3"}

func (w *c20Worker) run(all []*c20Worker) WorkerFunc {
	return func(ctx context.Context) {
		verifrt.GhostPut("ctx:"+w.name, ctx)
		verifrt.GhostPut("started:"+w.name, 1)
		if w.mode != 2 {
			<-ctx.Done()
			if w.mode == 1 {
				verifrt.Yield()
				verifrt.Yield()
			}
		}
		// about to return: nothing of lower order that is still running may have been cancelled yet
		for _, o := range all {
			if o.order < w.order && verifrt.GhostInt("started:"+o.name) == 1 && verifrt.GhostInt("returned:"+o.name) == 0 {
				if c, ok := verifrt.GhostGet("ctx:" + o.name).(context.Context); ok {
					verifrt.Assert(c.Err() == nil, "a worker's context was cancelled before a worker with a higher shutdown order had returned")
				}
			}
		}
		verifrt.GhostPut("returned:"+w.name, 1)
	}
}

func c20Order(name string) int {
	o := int(verifrt.I8(name))
	verifrt.Assume(o >= -2 && o <= 2)

	return o
}

//verif:h prop=C20 p.workers=2/3 preempt=0/1 cover=done,early,late,tie runs=30000000 timeout=900/900 steps=400000
func H_C20_order() {
	d := New()
	n := verifrt.Param("workers", 2)
	var ws []*c20Worker
	for i := 0; i < n; i++ {
		ws = append(ws, &c20Worker{name: c20Names[i], order: c20Order("order"), mode: verifrt.Choose("mode", 3)})
	}
	late := &c20Worker{name: c20Names[3], order: c20Order("order"), mode: 0}
	all := append(append([]*c20Worker{}, ws...), late)
	for _, w := range ws {
		verifrt.Assert(d.BackgroundWorker(w.name, w.run(all), w.order) == nil, "BackgroundWorker refused a new worker before shutdown")
		if w.mode == 2 {
			verifrt.Cover("early")
		}
	}
	if n >= 2 && ws[0].order == ws[1].order {
		verifrt.Cover("tie")
	}
	// registering the same name again before Start is refused
	verifrt.Assert(d.BackgroundWorker(ws[0].name, ws[0].run(all), ws[0].order) != nil, "registering a duplicate worker name was accepted")
	d.Start()
	verifrt.Assert(d.IsRunning(), "daemon not running after Start")
	addLate := verifrt.Choose("late", 2) == 1
	if addLate {
		verifrt.Assert(d.BackgroundWorker(late.name, late.run(all), late.order) == nil, "BackgroundWorker refused a new worker while running")
		verifrt.Cover("late")
		// a name that is still running is refused
		err := d.BackgroundWorker(late.name, late.run(all), late.order)
		verifrt.Assert(err != nil && ierrors.Is(err, ErrExistingBackgroundWorkerStillRunning), "registering a name that is still running was accepted")
	}
	verifrt.MustFinish()
	if verifrt.Choose("concurrentShutdown", 2) == 1 {
		d.Shutdown() // asynchronous
	}
	d.ShutdownAndWait()
	verifrt.Cover("done")
	for _, w := range all {
		if verifrt.GhostInt("started:"+w.name) == 1 {
			verifrt.Assert(verifrt.GhostInt("returned:"+w.name) == 1, "ShutdownAndWait returned before a started worker had returned")
		}
	}
	verifrt.Assert(d.IsStopped(), "daemon not stopped after ShutdownAndWait")
	err := d.BackgroundWorker("x", func(context.Context) { verifrt.Assert(false, "a worker was started after shutdown") })
	verifrt.Assert(err != nil && ierrors.Is(err, ErrDaemonAlreadyStopped), "a worker could be added after shutdown")
	d.Start()
	verifrt.Assert(!d.IsRunning(), "the daemon could be started after shutdown")
}

// H_C20_tie: two workers of equal order are cancelled together: the first returns only after the second has
// seen its cancellation. A daemon that waited between them would deadlock (reported by the detector).
//
//verif:h prop=C20 preempt=1/2 cover=done runs=30000000 timeout=900/900 steps=400000
func H_C20_tie() {
	d := New()
	order := c20Order("order")
	bSeen := make(chan struct{})
	verifrt.Assert(d.BackgroundWorker("a", func(ctx context.Context) { <-ctx.Done(); <-bSeen }, order) == nil, "BackgroundWorker refused a new worker")
	verifrt.Assert(d.BackgroundWorker("b", func(ctx context.Context) { <-ctx.Done(); close(bSeen) }, order) == nil, "BackgroundWorker refused a new worker")
	verifrt.MustFinish()
	d.Start()
	if verifrt.Choose("viaRun", 2) == 1 {
		var wg sync.WaitGroup
		wg.Add(1)
		go func() { defer wg.Done(); verifrt.MustFinish(); d.Run() }() // Start inside Run is a no-op now
		d.ShutdownAndWait()
		wg.Wait() // Run returns once every worker has returned
	} else {
		d.ShutdownAndWait()
	}
	verifrt.Cover("done")
}

// H_C20_register_race: a worker registered concurrently with ShutdownAndWait is either refused or started and
// then cancelled and awaited like every other worker.
//
//verif:h prop=C20 preempt=2/3 cover=accepted,refused runs=30000000 timeout=900/900 steps=400000
func H_C20_register_race() {
	d := New()
	verifrt.Assert(d.BackgroundWorker("base", func(ctx context.Context) { <-ctx.Done() }, 1) == nil, "BackgroundWorker refused a new worker")
	d.Start()
	order := 1 + verifrt.Choose("order", 2) // same order as the existing worker, or a new one
	var wg sync.WaitGroup
	wg.Add(1)
	var regErr error
	go func() {
		defer wg.Done()
		verifrt.MustFinish()
		regErr = d.BackgroundWorker("late", func(ctx context.Context) {
			verifrt.GhostPut("started:late", 1)
			<-ctx.Done()
			verifrt.GhostPut("returned:late", 1)
		}, order)
	}()
	verifrt.MustFinish()
	d.ShutdownAndWait()
	started := verifrt.GhostInt("started:late") == 1
	returned := verifrt.GhostInt("returned:late") == 1
	wg.Wait()
	if regErr != nil {
		verifrt.Cover("refused")
		verifrt.Assert(ierrors.Is(regErr, ErrDaemonAlreadyStopped), "a worker registered during shutdown was refused with an unexpected error")
	} else {
		verifrt.Cover("accepted")
	}
	verifrt.Assert(!started || returned, "ShutdownAndWait returned while a started worker was still running")
}

// H_C20_early: a worker of the highest order returns on its own before the shutdown; the remaining workers of
// distinct lower orders are still stopped in descending order.
//
//verif:h prop=C20 preempt=1/2 cover=done runs=30000000 timeout=900/900 steps=400000
func H_C20_early() {
	d := New()
	ws := []*c20Worker{{name: "w0", order: 3, mode: 2}, {name: "w1", order: 2, mode: 0}, {name: "w2", order: 1, mode: 1}, {name: "w3", order: 0, mode: 0}}
	nW := 3 + verifrt.Choose("four", 2)
	ws = ws[:nW]
	earlyDone := make(chan struct{})
	verifrt.GhostPut("earlyDone", earlyDone)
	for k, w := range ws {
		f := w.run(ws)
		if k == 0 {
			inner := f
			f = func(ctx context.Context) { inner(ctx); close(earlyDone) }
		}
		verifrt.Assert(d.BackgroundWorker(w.name, f, w.order) == nil, "BackgroundWorker refused a new worker before shutdown")
	}
	d.Start()
	verifrt.MustFinish()
	<-verifrt.GhostGet("earlyDone").(chan struct{}) // main blocks: the early worker runs, returns and cleans up
	d.ShutdownAndWait()
	for _, w := range ws {
		verifrt.Assert(verifrt.GhostInt("returned:"+w.name) == 1, "ShutdownAndWait returned before a started worker had returned")
	}
	verifrt.Cover("done")
}

// H_C20_rerun: a name is registered again while the goroutine of its previous (finished) worker is still tearing
// down. If the registration is accepted the new worker is shut down like every other worker.
//
//verif:h prop=C20 preempt=2/3 cover=accepted,refused runs=30000000 timeout=900/900 steps=400000
func H_C20_rerun() {
	d := New()
	verifrt.Assert(d.BackgroundWorker("a", func(context.Context) {}, 1) == nil, "BackgroundWorker refused a new worker before shutdown")
	d.Start()
	verifrt.MustFinish()
	err := d.BackgroundWorker("a", func(ctx context.Context) {
		verifrt.GhostPut("started:a2", 1)
		<-ctx.Done()
		verifrt.GhostPut("returned:a2", 1)
	}, 1)
	if err != nil {
		verifrt.Cover("refused")
		verifrt.Assert(ierrors.Is(err, ErrExistingBackgroundWorkerStillRunning), "re-registering a finished worker's name was refused with an unexpected error")
	} else {
		verifrt.Cover("accepted")
	}
	d.ShutdownAndWait()
	if err == nil {
		verifrt.Assert(verifrt.GhostInt("started:a2") == 1 && verifrt.GhostInt("returned:a2") == 1, "a worker that was accepted under a re-used name was not started, cancelled and awaited by the shutdown")
	}
}

// H_C20_start_race: Start racing with ShutdownAndWait on a daemon with a registered worker: either the worker is
// never started, or it is started, cancelled and awaited; once both calls have returned nothing is left running,
// and a later Start starts nothing.
//
//verif:h prop=C20 preempt=2/3 cover=started,not-started runs=30000000 timeout=900/900 steps=400000
func H_C20_start_race() {
	d := New()
	var started, returned atomic.Int32
	verifrt.Assert(d.BackgroundWorker("w", func(ctx context.Context) {
		started.Add(1)
		<-ctx.Done()
		returned.Add(1)
	}, 1) == nil, "BackgroundWorker refused a new worker")
	var wg sync.WaitGroup
	wg.Add(2)
	go func() { defer wg.Done(); verifrt.MustFinish(); d.Start() }()
	go func() { defer wg.Done(); verifrt.MustFinish(); d.ShutdownAndWait() }()
	verifrt.MustFinish()
	wg.Wait()
	// ShutdownAndWait has returned: a worker that was started by the racing Start must have been shut down by it,
	// or (when Start came later) must not have been started at all
	d.ShutdownAndWait() // a second call waits for whatever the first could not see
	if started.Load() == 0 {
		verifrt.Cover("not-started")
	} else {
		verifrt.Cover("started")
	}
	verifrt.Assert(started.Load() == returned.Load(), "after Start raced with ShutdownAndWait a started worker is still running although the daemon is stopped (never cancelled or awaited)")
	d.Start()
	verifrt.Assert(started.Load() == returned.Load(), "Start after the shutdown started a worker")
}
