//verif:pkg runtime/timed
package timed

import (
	"time"

	"verifrt"
)

// Property C12 (timed.PriorityQueue): pops in time order (ascending or descending).

//verif:h prop=C12 p.pushes=3/3 cover=asc,desc,popuntil runs=1000000 timeout=900/1200
func H_C12_timedpq() {
	asc := verifrt.Choose("ascending", 2) == 1
	pq := NewPriorityQueue[int](asc)
	var ts []int64
	live := []bool{}
	n := 1 + verifrt.Choose("pushes", verifrt.Param("pushes", 3))
	for i := 0; i < n; i++ {
		t := verifrt.I64("t")
		verifrt.Assume(t >= 0 && t < 1<<40)
		pq.Push(i, time.Unix(0, t))
		ts = append(ts, t)
		live = append(live, true)
	}
	before := func(a, b int64) bool { // a must not come after b
		if asc {
			return a <= b
		}

		return a >= b
	}
	if verifrt.Choose("popuntil", 2) == 1 {
		limit := verifrt.I64("limit")
		verifrt.Assume(limit >= 0 && limit < 1<<40)
		got := pq.PopUntil(time.Unix(0, limit))
		for j, v := range got {
			verifrt.Assert(live[v] && before(ts[v], limit), "timed.PriorityQueue.PopUntil returned an element beyond the limit")
			if j > 0 {
				verifrt.Assert(before(ts[got[j-1]], ts[v]), "timed.PriorityQueue.PopUntil is not in time order")
			}
			live[v] = false
		}
		for i := range ts {
			verifrt.Assert(!live[i] || !before(ts[i], limit), "timed.PriorityQueue.PopUntil left an element at or before the limit")
		}
		verifrt.Cover("popuntil")
	}
	var last int64
	first := true
	for {
		pv, pok := pq.Peek()
		v, ok := pq.Pop()
		if !ok {
			verifrt.Assert(!pok, "Peek reports an element on an empty queue")

			break
		}
		verifrt.Assert(pok && pv == v, "Peek and Pop disagree")
		verifrt.Assert(live[v], "timed.PriorityQueue.Pop returned an element that is not queued")
		verifrt.Assert(first || before(last, ts[v]), "timed.PriorityQueue does not pop in time order")
		last, first = ts[v], false
		live[v] = false
	}
	for i := range live {
		verifrt.Assert(!live[i], "timed.PriorityQueue lost an element")
	}
	verifrt.Assert(pq.Size() == 0 && pq.IsEmpty(), "timed.PriorityQueue not empty after draining")
	if asc {
		verifrt.Cover("asc")
	} else {
		verifrt.Cover("desc")
	}
}
