//verif:pkg serializer/stream
package stream

import (
	"bytes"
	"io"

	"verifrt"

	"github.com/iotaledger/hive.go/serializer/v2"
)

// Tier 1 of C01 / C02 for the stream helpers: every Write*/Read* pair read back through an io.Reader that
// splits its reads arbitrarily (the split of every Read call is a decision of the exploration).

// c01Chunked returns 1..len(p) bytes per call (arbitrary), io.EOF at the end.
type c01Chunked struct {
	data []byte
	pos  int
	one  bool // always hand out single bytes (the harshest split) instead of branching on every size
}

func (r *c01Chunked) Read(p []byte) (int, error) {
	if len(p) == 0 {
		return 0, nil
	}
	rem := len(r.data) - r.pos
	if rem == 0 {
		return 0, io.EOF
	}
	max := len(p)
	if rem < max {
		max = rem
	}
	n := 1
	if !r.one && max > 1 {
		n = 1 + verifrt.Choose("chunk", max)
	}
	copy(p, r.data[r.pos:r.pos+n])
	r.pos += n

	return n, nil
}

var c01sPrefixes = [4]serializer.SeriLengthPrefixType{serializer.SeriLengthPrefixTypeAsByte, serializer.SeriLengthPrefixTypeAsUint16, serializer.SeriLengthPrefixTypeAsUint32, serializer.SeriLengthPrefixTypeAsUint64}

func c01sReader(b []byte) io.Reader {
	switch verifrt.Choose("reader", 3) {
	case 0:
		return bytes.NewReader(b)
	case 1:
		return &c01Chunked{data: b, one: true}
	}

	return &c01Chunked{data: b}
}

//verif:h prop=C01 p.maxlen=3/5 cover=num,bytes,sized,object,collection runs=3000000 timeout=900/900
func H_C01_stream() {
	w := NewByteBuffer()
	switch verifrt.Choose("kind", 5) {
	case 0:
		v16, v64, vb := verifrt.U16("v16"), verifrt.I64("v64"), verifrt.Bool("vb")
		verifrt.Assert(Write(w, v16) == nil && Write(w, v64) == nil && Write(w, vb) == nil, "stream.Write failed")
		b, _ := w.Bytes()
		verifrt.Assert(len(b) == 11, "stream.Write produced a wrong number of bytes")
		r := c01sReader(b)
		o16, e1 := Read[uint16](r)
		o64, e2 := Read[int64](r)
		ob, e3 := Read[bool](r)
		verifrt.Assert(e1 == nil && e2 == nil && e3 == nil && o16 == v16 && o64 == v64 && ob == vb, "stream.Read(stream.Write(v)) differs from v (for some split of the reads)")
		verifrt.Cover("num")
	case 1:
		data := verifrt.Bytes("data", verifrt.Param("maxlen", 3))
		verifrt.Assert(WriteBytes(w, data) == nil, "stream.WriteBytes failed")
		b, _ := w.Bytes()
		out, err := ReadBytes(c01sReader(b), len(data))
		verifrt.Assert(err == nil && bytes.Equal(out, data), "stream.ReadBytes(stream.WriteBytes(b)) differs from b or fails (for some split of the reads)")
		verifrt.Cover("bytes")
	case 2:
		data := verifrt.Bytes("data", verifrt.Param("maxlen", 3))
		p := c01sPrefixes[verifrt.Choose("prefix", 4)]
		verifrt.Assert(WriteBytesWithSize(w, data, p) == nil, "stream.WriteBytesWithSize failed")
		b, _ := w.Bytes()
		out, err := ReadBytesWithSize(c01sReader(b), p)
		verifrt.Assert(err == nil && bytes.Equal(out, data), "stream.ReadBytesWithSize(stream.WriteBytesWithSize(b)) differs from b or fails (for some split of the reads)")
		verifrt.Cover("sized")
	case 3:
		v := verifrt.U32("v")
		p := c01sPrefixes[verifrt.Choose("prefix", 4)]
		enc := func(x uint32) ([]byte, error) {
			return []byte{byte(x), byte(x >> 8), byte(x >> 16), byte(x >> 24)}, nil
		}
		dec := func(b []byte) (uint32, int, error) {
			return uint32(b[0]) | uint32(b[1])<<8 | uint32(b[2])<<16 | uint32(b[3])<<24, 4, nil
		}
		verifrt.Assert(WriteObjectWithSize(w, v, p, enc) == nil && WriteObject(w, v, enc) == nil, "stream.WriteObject failed")
		b, _ := w.Bytes()
		r := c01sReader(b)
		o1, e1 := ReadObjectWithSize(r, p, dec)
		o2, e2 := ReadObject(r, 4, dec)
		verifrt.Assert(e1 == nil && e2 == nil && o1 == v && o2 == v, "stream.ReadObject*(stream.WriteObject*(v)) differs from v or fails (for some split of the reads)")
		verifrt.Cover("object")
	case 4:
		n := verifrt.Choose("n", 3)
		p := c01sPrefixes[verifrt.Choose("prefix", 4)]
		elems := verifrt.BytesN("e", n)
		err := WriteCollection(w, p, func() (int, error) {
			for _, e := range elems {
				if err := Write(w, e); err != nil {
					return 0, err
				}
			}

			return n, nil
		})
		verifrt.Assert(err == nil, "stream.WriteCollection failed")
		b, _ := w.Bytes()
		peek, perr := PeekSize(bytes.NewReader(b), p)
		verifrt.Assert(perr == nil && peek == n, "stream.PeekSize differs from the number of elements written")
		r := c01sReader(b)
		var got []byte
		rerr := ReadCollection(r, p, func(int) error {
			e, err := Read[byte](r)
			got = append(got, e)

			return err
		})
		verifrt.Assert(rerr == nil && bytes.Equal(got, elems), "stream.ReadCollection(stream.WriteCollection(c)) differs from c or fails")
		verifrt.Cover("collection")
	}
}

//verif:h prop=C02 p.maxlen=4/7 cover=ok,error maxvals=600 runs=3000000 timeout=900/900
func H_C02_stream() {
	src := verifrt.Bytes("src", verifrt.Param("maxlen", 5))
	verifrt.AllocBudget(2*len(src) + 1024) // io.ReadAll starts with a 512-byte buffer
	r := bytes.NewReader(src)
	p := c01sPrefixes[verifrt.Choose("prefix", 4)]
	var err error
	iterations := 0
	func() {
		defer func() {
			if rec := recover(); rec != nil {
				verifrt.Assert(false, "a stream Read* helper panicked on arbitrary input")
			}
		}()
		switch verifrt.Choose("reader", 5) {
		case 0:
			_, err = Read[uint32](r)
		case 1:
			_, err = ReadBytes(r, verifrt.Choose("n", 4))
		case 2:
			_, err = ReadBytesWithSize(r, p)
		case 3:
			_, err = ReadObjectWithSize(r, p, func(b []byte) (int, int, error) { return 0, len(b), nil })
		case 4:
			err = ReadCollection(r, p, func(int) error {
				iterations++
				verifrt.Assert(iterations <= len(src)+1, "stream.ReadCollection iterates in proportion to a length field that exceeds the remaining input")
				_, e := Read[byte](r)

				return e
			})
		}
	}()
	if err == nil {
		verifrt.Cover("ok")
	} else {
		verifrt.Cover("error")
	}
	verifrt.Assert(r.Len() >= 0 && int(r.Size())-r.Len() <= len(src), "more bytes consumed than were supplied")
}
