//verif:pkg web/subscriptionmanager
package subscriptionmanager

import (
	"verifrt"

	"github.com/iotaledger/hive.go/ds/shrinkingmap"
)

// Property C12 (SubscriptionManager): per-topic subscriber counts always equal the sum of the clients'
// subscriptions, and the emitted events mirror every state change, including forced drops at the limit.

type c12SMModel struct {
	clients [2]uint8
	topics  [2]uint8
	conn    [2]bool
	sub     [2][2]int
}

type c12SMLog struct {
	connected, disconnected, dropped [2]int
	subscribed, unsubscribed         [2][2]int
	added, removed                   [2]int
}

func (m *c12SMModel) global(t int) int { return m.sub[0][t] + m.sub[1][t] }

// cleanup removes every subscription of client c and returns the expected event deltas.
func (m *c12SMModel) cleanup(c int, exp *c12SMLog) {
	for t := 0; t < 2; t++ {
		if n := m.sub[c][t]; n > 0 {
			exp.unsubscribed[c][t] += n
			m.sub[c][t] = 0
			if m.global(t) == 0 {
				exp.removed[t]++
			}
		}
	}
	m.conn[c] = false
}

// H_C12_submgr_hist: histories through the public API from the empty manager.
//
//verif:h prop=C12 p.ops=3/4 cover=connect,reconnect,disconnect,subscribe,resubscribe,unsubscribe,dropped runs=3000000 timeout=900/900
func H_C12_submgr_hist() { c12Submgr(false) }

// H_C12_submgr_step: p.ops operations from an arbitrary state satisfying the representation invariant
// (DESIGN.md Appendix A.9): every client connected or not, every subscription count in 0..2, global counts
// equal to the sums.
//
//verif:h prop=C12 p.ops=1/2 cover=connect,reconnect,disconnect,subscribe,resubscribe,unsubscribe,dropped,shared-topic runs=3000000 timeout=900/900
func H_C12_submgr_step() { c12Submgr(true) }

func c12Submgr(arbitraryState bool) {
	limit := verifrt.Choose("limit", 4) // 0 = unlimited, 1, 2, 3
	mgr := New[uint8, uint8](WithMaxTopicSubscriptionsPerClient[uint8, uint8](limit),
		WithCleanupThresholdCount[uint8, uint8](0), WithCleanupThresholdRatio[uint8, uint8](0))
	m := &c12SMModel{}
	m.clients = [2]uint8{verifrt.U8("c0"), verifrt.U8("c1")}
	m.topics = [2]uint8{verifrt.U8("t0"), verifrt.U8("t1")}
	verifrt.Assume(m.clients[0] != m.clients[1] && m.topics[0] != m.topics[1])
	ci := func(c uint8) int {
		if c == m.clients[0] {
			return 0
		}

		return 1
	}
	ti := func(t uint8) int {
		if t == m.topics[0] {
			return 0
		}

		return 1
	}
	log := &c12SMLog{}
	ev := mgr.Events()
	ev.ClientConnected.Hook(func(e *ClientEvent[uint8]) { log.connected[ci(e.ClientID)]++ })
	ev.ClientDisconnected.Hook(func(e *ClientEvent[uint8]) { log.disconnected[ci(e.ClientID)]++ })
	ev.DropClient.Hook(func(e *DropClientEvent[uint8]) { log.dropped[ci(e.ClientID)]++ })
	ev.TopicSubscribed.Hook(func(e *ClientTopicEvent[uint8, uint8]) { log.subscribed[ci(e.ClientID)][ti(e.Topic)]++ })
	ev.TopicUnsubscribed.Hook(func(e *ClientTopicEvent[uint8, uint8]) { log.unsubscribed[ci(e.ClientID)][ti(e.Topic)]++ })
	ev.TopicAdded.Hook(func(e *TopicEvent[uint8]) { log.added[ti(e.Topic)]++ })
	ev.TopicRemoved.Hook(func(e *TopicEvent[uint8]) { log.removed[ti(e.Topic)]++ })

	if arbitraryState {
		for c := 0; c < 2; c++ {
			if verifrt.Choose("connected", 2) == 0 {
				continue
			}
			m.conn[c] = true
			subs := shrinkingmap.New[uint8, int](shrinkingmap.WithShrinkingThresholdCount(0), shrinkingmap.WithShrinkingThresholdRatio(0))
			distinct := 0
			for t := 0; t < 2; t++ {
				if n := verifrt.Choose("count", 3); n > 0 {
					m.sub[c][t] = n
					subs.Set(m.topics[t], n)
					distinct++
				}
			}
			// a client that reached the limit was dropped, so it cannot be in the state
			verifrt.Assume(limit == 0 || distinct < limit)
			mgr.subscribers.Set(m.clients[c], subs)
		}
		for t := 0; t < 2; t++ {
			if g := m.global(t); g > 0 {
				mgr.topics.Set(m.topics[t], g)
			}
		}
	}
	exp := &c12SMLog{}
	n := verifrt.Param("ops", 3)
	for s := 0; s < n; s++ {
		c := verifrt.Choose("client", 2)
		t := verifrt.Choose("topic", 2)
		switch verifrt.Choose("op", 4) {
		case 0:
			if m.conn[c] {
				verifrt.Cover("reconnect")
				m.cleanup(c, exp)
				exp.disconnected[c]++
			} else {
				verifrt.Cover("connect")
			}
			m.conn[c] = true
			exp.connected[c]++
			mgr.Connect(m.clients[c])
		case 1:
			was := m.conn[c]
			if was {
				m.cleanup(c, exp)
				exp.disconnected[c]++
				verifrt.Cover("disconnect")
			}
			verifrt.Assert(mgr.Disconnect(m.clients[c]) == was, "Disconnect: result differs from the model")
		case 2:
			want := false
			switch {
			case !m.conn[c]:
			case m.sub[c][t] > 0:
				m.sub[c][t]++
				exp.subscribed[c][t]++
				want = true
				verifrt.Cover("resubscribe")
			default:
				distinct := 0
				for k := 0; k < 2; k++ {
					if m.sub[c][k] > 0 {
						distinct++
					}
				}
				if limit != 0 && distinct+1 >= limit {
					verifrt.Cover("dropped")
					if m.sub[1-c][t] > 0 || m.sub[1-c][1-t] > 0 {
						verifrt.Cover("shared-topic")
					}
					m.cleanup(c, exp)
					exp.dropped[c]++
					exp.disconnected[c]++
				} else {
					if m.global(t) == 0 {
						exp.added[t]++
					}
					m.sub[c][t] = 1
					exp.subscribed[c][t]++
					want = true
					verifrt.Cover("subscribe")
				}
			}
			verifrt.Assert(mgr.Subscribe(m.clients[c], m.topics[t]) == want, "Subscribe: result differs from the model")
		case 3:
			want := m.conn[c] && m.sub[c][t] > 0
			if want {
				m.sub[c][t]--
				exp.unsubscribed[c][t]++
				if m.global(t) == 0 {
					exp.removed[t]++
				}
				verifrt.Cover("unsubscribe")
			}
			verifrt.Assert(mgr.Unsubscribe(m.clients[c], m.topics[t]) == want, "Unsubscribe: result differs from the model")
		}
		// state: counts equal the model, global counts equal the sum over clients
		for t := 0; t < 2; t++ {
			g, _ := mgr.topics.Get(m.topics[t])
			verifrt.Assert(g == m.global(t), "per-topic subscriber count differs from the sum of the clients' subscriptions")
			verifrt.Assert(mgr.TopicHasSubscribers(m.topics[t]) == (m.global(t) > 0), "TopicHasSubscribers differs from the model")
			for c := 0; c < 2; c++ {
				cnt := 0
				if subs, ok := mgr.subscribers.Get(m.clients[c]); ok {
					cnt, _ = subs.Get(m.topics[t])
				}
				verifrt.Assert(cnt == m.sub[c][t], "a client's subscription count differs from the model")
				verifrt.Assert(mgr.ClientSubscribedToTopic(m.clients[c], m.topics[t]) == (m.sub[c][t] > 0), "ClientSubscribedToTopic differs from the model")
			}
		}
		for c := 0; c < 2; c++ {
			verifrt.Assert(mgr.subscribers.Has(m.clients[c]) == m.conn[c], "connection state differs from the model")
		}
		// events mirror every state change
		verifrt.Assert(*log == *exp, "emitted events do not mirror the state changes")
	}
}
