//verif:pkg kvstore
package kvstore

import (
	"encoding/binary"
	"errors"
	"sync"

	"verifrt"

	"github.com/iotaledger/hive.go/ierrors"
)

// Property C06: TypedValue / TypedStore are transparent, error-faithful typed views.

var errC06Fault = errors.New("injected fault")

// c06Store: single-cell KVStore stub honouring the interface contract. Every call may fail (symbolic fault bit).
type c06Store struct {
	mu      sync.Mutex // the stub itself is thread-safe, like a real store
	has     bool
	val     []byte
	faults  bool // fault injection enabled
	faulted bool // some callee failed during the current operation
	calls   int
}

func (c *c06Store) fail() bool {
	c.calls++
	if c.faults && verifrt.Bool("storeFault") {
		c.faulted = true

		return true
	}

	return false
}

func (c *c06Store) Get(Key) (Value, error) {
	c.mu.Lock()
	defer c.mu.Unlock()
	if c.fail() {
		return nil, errC06Fault
	}
	if !c.has {
		return nil, ErrKeyNotFound
	}

	return append([]byte{}, c.val...), nil
}

func (c *c06Store) Has(Key) (bool, error) {
	c.mu.Lock()
	defer c.mu.Unlock()
	if c.fail() {
		return false, errC06Fault
	}

	return c.has, nil
}

func (c *c06Store) Set(_ Key, v Value) error {
	c.mu.Lock()
	defer c.mu.Unlock()
	if c.fail() {
		return errC06Fault
	}
	c.val = append([]byte{}, v...)
	c.has = true

	return nil
}

func (c *c06Store) Delete(Key) error {
	c.mu.Lock()
	defer c.mu.Unlock()
	if c.fail() {
		return errC06Fault
	}
	c.has = false
	c.val = nil

	return nil
}

func (c *c06Store) WithRealm(Realm) (KVStore, error)         { panic("unused") }
func (c *c06Store) WithExtendedRealm(Realm) (KVStore, error) { panic("unused") }
func (c *c06Store) Realm() Realm                             { panic("unused") }
func (c *c06Store) Iterate(KeyPrefix, IteratorKeyValueConsumerFunc, ...IterDirection) error {
	panic("unused")
}
func (c *c06Store) IterateKeys(KeyPrefix, IteratorKeyConsumerFunc, ...IterDirection) error {
	panic("unused")
}
func (c *c06Store) Clear() error                       { panic("unused") }
func (c *c06Store) DeletePrefix(KeyPrefix) error       { panic("unused") }
func (c *c06Store) Flush() error                       { panic("unused") }
func (c *c06Store) Close() error                       { panic("unused") }
func (c *c06Store) Batched() (BatchedMutations, error) { panic("unused") }

type c06Codec struct {
	st     *c06Store
	faults bool
}

func (c *c06Codec) enc(v uint64) ([]byte, error) {
	if c.faults && verifrt.Bool("encFault") {
		c.st.faulted = true

		return nil, errC06Fault
	}
	b := make([]byte, 8)
	binary.LittleEndian.PutUint64(b, v)

	return b, nil
}

func (c *c06Codec) dec(b []byte) (uint64, int, error) {
	if len(b) != 8 {
		c.st.faulted = true

		return 0, 0, errC06Fault
	}
	if c.faults && verifrt.Bool("decFault") {
		c.st.faulted = true

		return 0, 0, errC06Fault
	}

	return binary.LittleEndian.Uint64(b), 8, nil
}

func c06Bytes(v uint64) []byte {
	b := make([]byte, 8)
	binary.LittleEndian.PutUint64(b, v)

	return b
}

func c06Eq(a, b []byte) bool {
	if len(a) != len(b) {
		return false
	}
	for i := range a {
		if a[i] != b[i] {
			return false
		}
	}

	return true
}

// c06Inv is the representation invariant of DESIGN.md Appendix A.2.
func c06Inv(t *TypedValue[uint64], st *c06Store) bool {
	if t.hasCached != nil && !*t.hasCached {
		if st.has || t.valueCached != nil {
			return false
		}
	}
	if t.hasCached != nil && *t.hasCached && !st.has {
		return false
	}
	if t.valueCached != nil {
		if !st.has || t.hasCached == nil || !*t.hasCached {
			return false
		}
		if len(st.val) != 8 || binary.LittleEndian.Uint64(st.val) != *t.valueCached {
			return false
		}
	}

	return true
}

// H_C06_step: one operation from an arbitrary state (store cell + cache) satisfying the invariant, with a
// symbolic fault bit on every codec and store call.
//
//verif:h prop=C06 cover=get-hit,get-miss,get-notfound,has,set-ok,delete-ok,compute-ok,compute-unchanged,compute-err,fault steps=400000
func H_C06_step() {
	st := &c06Store{}
	cd := &c06Codec{st: st}
	// arbitrary pre-state
	st.has = verifrt.Bool("has")
	if st.has {
		st.val = c06Bytes(verifrt.U64("stored"))
	}
	tv := NewTypedValue[uint64](st, []byte("k"), cd.enc, cd.dec)
	switch verifrt.Choose("hasCached", 3) {
	case 1:
		f := false
		tv.hasCached = &f
	case 2:
		tr := true
		tv.hasCached = &tr
	}
	if verifrt.Bool("valueCached") {
		v := verifrt.U64("cached")
		tv.valueCached = &v
	}
	verifrt.Assume(c06Inv(tv, st))
	// ghost copy of the pre-state
	preHas, preVal := st.has, append([]byte{}, st.val...)
	preHC, preVC := tv.hasCached, tv.valueCached
	var preV uint64
	if preHas {
		preV = binary.LittleEndian.Uint64(preVal)
	}
	unchanged := func() bool {
		return st.has == preHas && c06Eq(st.val, preVal)
	}
	cacheConsistent := func() bool { return c06Inv(tv, st) }
	st.faults, cd.faults = true, true

	switch verifrt.Choose("op", 5) {
	case 0: // Get
		v, err := tv.Get()
		verifrt.Assert(unchanged(), "Get changed the store")
		if st.faulted {
			verifrt.Cover("fault")
			verifrt.Assert(err != nil, "Get: a failing callee was not reported")
		} else if preHas {
			if st.calls == 0 {
				verifrt.Cover("get-hit")
			} else {
				verifrt.Cover("get-miss")
			}
			verifrt.Assert(err == nil && v == preV, "Get: result differs from the stored value")
		} else {
			verifrt.Cover("get-notfound")
			verifrt.Assert(err != nil && ierrors.Is(err, ErrKeyNotFound), "Get: missing key must give ErrKeyNotFound")
		}
	case 1: // Has
		h, err := tv.Has()
		verifrt.Assert(unchanged(), "Has changed the store")
		if st.faulted {
			verifrt.Cover("fault")
			verifrt.Assert(err != nil, "Has: a failing callee was not reported")
		} else {
			verifrt.Cover("has")
			verifrt.Assert(err == nil && h == preHas, "Has: result differs from the store")
		}
	case 2: // Set
		nv := verifrt.U64("new")
		err := tv.Set(nv)
		if st.faulted {
			verifrt.Cover("fault")
			verifrt.Assert(err != nil, "Set: a failing callee was not reported")
			verifrt.Assert(unchanged() && tv.hasCached == preHC && tv.valueCached == preVC, "Set: a failed call changed store or cache")
		} else {
			verifrt.Cover("set-ok")
			verifrt.Assert(err == nil && st.has && c06Eq(st.val, c06Bytes(nv)), "Set: stored bytes are not the encoding of the written value")
		}
	case 3: // Delete
		err := tv.Delete()
		if st.faulted {
			verifrt.Cover("fault")
			verifrt.Assert(err != nil, "Delete: a failing callee was not reported")
			verifrt.Assert(unchanged() && tv.hasCached == preHC && tv.valueCached == preVC, "Delete: a failed call changed store or cache")
		} else {
			verifrt.Cover("delete-ok")
			verifrt.Assert(err == nil && !st.has, "Delete: key still present")
		}
	case 4: // Compute
		mode := verifrt.Choose("compute", 3)
		nv := verifrt.U64("new")
		var sawCur uint64
		var sawExists bool
		called := false
		r, err := tv.Compute(func(cur uint64, exists bool) (uint64, error) {
			called = true
			sawCur, sawExists = cur, exists
			switch mode {
			case 1:
				return 0, ErrTypedValueNotChanged
			case 2:
				st.faulted = true

				return 0, errC06Fault
			}

			return nv, nil
		})
		if called {
			verifrt.Assert(sawExists == preHas && (!preHas || sawCur == preV), "Compute: callback saw a value different from the stored one")
		}
		switch {
		case st.faulted:
			verifrt.Cover("fault")
			if mode == 2 {
				verifrt.Cover("compute-err")
			}
			verifrt.Assert(err != nil, "Compute: a failing callee was not reported")
			verifrt.Assert(unchanged() && tv.hasCached == preHC && tv.valueCached == preVC, "Compute: a failed call changed store or cache")
		case mode == 1:
			verifrt.Cover("compute-unchanged")
			verifrt.Assert(err == nil && unchanged() && (!preHas || r == preV), "Compute: ErrTypedValueNotChanged must keep and return the current value")
		default:
			verifrt.Cover("compute-ok")
			verifrt.Assert(err == nil && r == nv && st.has && c06Eq(st.val, c06Bytes(nv)), "Compute: stored bytes are not the encoding of the computed value")
		}
	}
	verifrt.Assert(cacheConsistent(), "cache and store disagree after the operation (representation invariant broken)")
}

// H_C06_hist: histories of up to p.ops operations through the public API from an empty store, faults enabled;
// after every step a fresh TypedValue over the same store (no cache) must agree with the cached one.
//
//verif:h prop=C06 p.ops=2/3 cover=agree steps=600000
func H_C06_hist() {
	st := &c06Store{faults: true}
	cd := &c06Codec{st: st, faults: true}
	tv := NewTypedValue[uint64](st, []byte("k"), cd.enc, cd.dec)
	n := verifrt.Param("ops", 2)
	for k := 0; k < n; k++ {
		st.faulted = false
		switch verifrt.Choose("op", 5) {
		case 0:
			tv.Get()
		case 1:
			tv.Has()
		case 2:
			err := tv.Set(verifrt.U64("v"))
			verifrt.Assert(st.faulted == (err != nil), "Set: error reported iff a callee failed")
		case 3:
			err := tv.Delete()
			verifrt.Assert(st.faulted == (err != nil), "Delete: error reported iff a callee failed")
		case 4:
			mode := verifrt.Choose("compute", 2)
			_, err := tv.Compute(func(cur uint64, exists bool) (uint64, error) {
				if mode == 1 {
					return 0, ErrTypedValueNotChanged
				}

				return cur + 1, nil
			})
			verifrt.Assert(st.faulted == (err != nil), "Compute: error reported iff a callee failed")
		}
		// compare with an uncached view (faults off for the observation)
		st.faults, cd.faults = false, false
		fresh := NewTypedValue[uint64](st, []byte("k"), cd.enc, cd.dec)
		a, aerr := tv.Get()
		b, berr := fresh.Get()
		verifrt.Assert((aerr == nil) == (berr == nil) && (aerr != nil || a == b), "history: cached view and raw store disagree")
		verifrt.Cover("agree")
		st.faults, cd.faults = true, true
	}
}

// H_C06_conc: concurrent Compute(+1) calls are serialised; a concurrent reader only sees written values.
//
//verif:h prop=C06 preempt=2/3 cover=done
func H_C06_conc() {
	st := &c06Store{}
	cd := &c06Codec{st: st}
	tv := NewTypedValue[uint64](st, []byte("k"), cd.enc, cd.dec)
	tv.Set(10)
	if verifrt.Choose("coldCache", 2) == 1 {
		// the racing instance has not read or written yet: its first access fills the cache from the store
		tv = NewTypedValue[uint64](st, []byte("k"), cd.enc, cd.dec)
	}
	inc := func(cur uint64, exists bool) (uint64, error) { return cur + 1, nil }
	var wg sync.WaitGroup
	wg.Add(3)
	go func() { defer wg.Done(); tv.Compute(inc) }()
	go func() { defer wg.Done(); tv.Compute(inc) }()
	var seen uint64
	go func() { defer wg.Done(); seen, _ = tv.Get() }()
	wg.Wait()
	v, err := tv.Get()
	verifrt.Cover("done")
	verifrt.Assert(err == nil && v == 12, "concurrent Compute calls lost an update")
	verifrt.Assert(seen >= 10 && seen <= 12, "reader saw a value that was never written")
}

// c06Map: a tiny multi-key KVStore stub (ordered slice, 1-byte keys) with symbolic faults, for TypedStore.
type c06Map struct {
	c06Store
	keys []byte
	vals [][]byte
}

func (m *c06Map) idx(k Key) int {
	for i := range m.keys {
		if len(k) == 1 && m.keys[i] == k[0] {
			return i
		}
	}

	return -1
}

func (m *c06Map) Get(k Key) (Value, error) {
	if m.fail() {
		return nil, errC06Fault
	}
	if i := m.idx(k); i >= 0 {
		return append([]byte{}, m.vals[i]...), nil
	}

	return nil, ErrKeyNotFound
}

func (m *c06Map) Has(k Key) (bool, error) {
	if m.fail() {
		return false, errC06Fault
	}

	return m.idx(k) >= 0, nil
}

func (m *c06Map) Set(k Key, v Value) error {
	if m.fail() {
		return errC06Fault
	}
	if i := m.idx(k); i >= 0 {
		m.vals[i] = append([]byte{}, v...)

		return nil
	}
	m.keys = append(m.keys, k[0])
	m.vals = append(m.vals, append([]byte{}, v...))

	return nil
}

func (m *c06Map) Delete(k Key) error {
	if m.fail() {
		return errC06Fault
	}
	if i := m.idx(k); i >= 0 {
		m.keys = append(m.keys[:i], m.keys[i+1:]...)
		m.vals = append(m.vals[:i], m.vals[i+1:]...)
	}

	return nil
}

func (m *c06Map) Iterate(_ KeyPrefix, f IteratorKeyValueConsumerFunc, _ ...IterDirection) error {
	if m.fail() {
		return errC06Fault
	}
	for i := range m.keys {
		if !f([]byte{m.keys[i]}, append([]byte{}, m.vals[i]...)) {
			break
		}
	}

	return nil
}

// H_C06_store: one TypedStore operation on a store with two arbitrary entries, symbolic faults in the
// key codec, the value codec and the store; Iterate with a decode failure at an arbitrary position.
//
//verif:h prop=C06 cover=get,has,set,delete,iterate-all,iterate-stop,fault steps=600000
func H_C06_store() {
	m := &c06Map{}
	k0, k1 := verifrt.U8("k0"), verifrt.U8("k1")
	verifrt.Assume(k0 != k1)
	v0, v1 := verifrt.U64("v0"), verifrt.U64("v1")
	m.keys = []byte{k0, k1}
	m.vals = [][]byte{c06Bytes(v0), c06Bytes(v1)}
	cd := &c06Codec{st: &m.c06Store, faults: true}
	m.faults = true
	keyEnc := func(k uint8) ([]byte, error) {
		if verifrt.Bool("keyEncFault") {
			m.faulted = true

			return nil, errC06Fault
		}

		return []byte{k}, nil
	}
	decAt := -1
	decN := 0
	keyDec := func(b []byte) (uint8, int, error) {
		if decN == decAt {
			m.faulted = true

			return 0, 0, errC06Fault
		}
		decN++

		return b[0], 1, nil
	}
	ts := NewTypedStore[uint8, uint64](m, keyEnc, keyDec, cd.enc, cd.dec)
	model := func(k uint8) (uint64, bool) {
		switch k {
		case k0:
			return v0, true
		case k1:
			return v1, true
		}

		return 0, false
	}
	same := func() bool {
		return len(m.keys) == 2 && m.keys[0] == k0 && m.keys[1] == k1 && c06Eq(m.vals[0], c06Bytes(v0)) && c06Eq(m.vals[1], c06Bytes(v1))
	}
	k := verifrt.U8("k")
	switch verifrt.Choose("op", 5) {
	case 0:
		v, err := ts.Get(k)
		verifrt.Assert(same(), "TypedStore.Get changed the store")
		want, ok := model(k)
		if m.faulted {
			verifrt.Cover("fault")
			verifrt.Assert(err != nil, "TypedStore.Get: a failing callee was not reported")
		} else if ok {
			verifrt.Cover("get")
			verifrt.Assert(err == nil && v == want, "TypedStore.Get: result differs from the raw entry")
		} else {
			verifrt.Assert(err != nil && ierrors.Is(err, ErrKeyNotFound), "TypedStore.Get: missing key must give ErrKeyNotFound")
		}
	case 1:
		h, err := ts.Has(k)
		_, ok := model(k)
		if m.faulted {
			verifrt.Assert(err != nil, "TypedStore.Has: a failing callee was not reported")
		} else {
			verifrt.Cover("has")
			verifrt.Assert(err == nil && h == ok, "TypedStore.Has: result differs from the raw store")
		}
	case 2:
		nv := verifrt.U64("nv")
		err := ts.Set(k, nv)
		if m.faulted {
			verifrt.Assert(err != nil && same(), "TypedStore.Set: failure not reported or store changed")
		} else {
			verifrt.Cover("set")
			i := m.idx([]byte{k})
			verifrt.Assert(err == nil && i >= 0 && c06Eq(m.vals[i], c06Bytes(nv)), "TypedStore.Set: stored bytes are not the encoding of the value")
		}
	case 3:
		err := ts.Delete(k)
		if m.faulted {
			verifrt.Assert(err != nil && same(), "TypedStore.Delete: failure not reported or store changed")
		} else {
			verifrt.Cover("delete")
			verifrt.Assert(err == nil && m.idx([]byte{k}) < 0, "TypedStore.Delete: key still present")
		}
	case 4:
		decAt = verifrt.Choose("decAt", 3) - 1
		stopAt := verifrt.Choose("stopAt", 3) - 1
		seen := 0
		err := ts.Iterate(EmptyPrefix, func(key uint8, value uint64) bool {
			want, ok := model(key)
			verifrt.Assert(ok && want == value, "TypedStore.Iterate: entry differs from the raw store")
			seen++

			return seen-1 != stopAt
		})
		if m.faulted {
			verifrt.Cover("fault")
			verifrt.Assert(err != nil, "TypedStore.Iterate: a decode or store failure was not reported")
		} else {
			verifrt.Assert(err == nil, "TypedStore.Iterate: spurious error")
			if stopAt >= 0 && stopAt < 2 {
				verifrt.Cover("iterate-stop")
				verifrt.Assert(seen == stopAt+1, "TypedStore.Iterate: did not stop when the consumer said so")
			} else {
				verifrt.Cover("iterate-all")
				verifrt.Assert(seen == 2, "TypedStore.Iterate: did not visit every entry")
			}
		}
		verifrt.Assert(same(), "TypedStore.Iterate changed the store")
	}
}

// H_C06_conc2: every pair of concurrent writers (Compute(+1), Set, Delete) on one TypedValue is serialised:
// afterwards the cache agrees with the raw store and the result matches one of the two serial orders.
//
//verif:h prop=C06 preempt=2/3 cover=done runs=3000000 timeout=900/900
func H_C06_conc2() {
	st := &c06Store{}
	cd := &c06Codec{st: st}
	tv := NewTypedValue[uint64](st, []byte("k"), cd.enc, cd.dec)
	tv.Set(10)
	inc := func(cur uint64, exists bool) (uint64, error) {
		if !exists {
			return 100, nil
		}

		return cur + 1, nil
	}
	op := func(which int, id uint64) {
		switch which {
		case 0:
			tv.Compute(inc)
		case 1:
			tv.Set(20 + id)
		case 2:
			tv.Delete()
		case 3:
			_, _ = tv.Get() // a reader that may have to fill the cache
		}
	}
	serial := func(first, second int, id1, id2 uint64) (uint64, bool) {
		v, has := uint64(10), true
		apply := func(which int, id uint64) {
			switch which {
			case 0:
				if has {
					v++
				} else {
					v, has = 100, true
				}
			case 1:
				v, has = 20+id, true
			case 2:
				has = false
			}
		}
		apply(first, id1)
		apply(second, id2)

		return v, has
	}
	a, b := verifrt.Choose("a", 4), verifrt.Choose("b", 3)
	var wg sync.WaitGroup
	wg.Add(2)
	go func() { defer wg.Done(); verifrt.MustFinish(); op(a, 1) }()
	go func() { defer wg.Done(); verifrt.MustFinish(); op(b, 2) }()
	wg.Wait()
	verifrt.Cover("done")
	got, err := tv.Get()
	fresh := NewTypedValue[uint64](st, []byte("k"), cd.enc, cd.dec)
	raw, rerr := fresh.Get()
	verifrt.Assert((err == nil) == (rerr == nil) && (err != nil || got == raw), "after concurrent writers the cached view and the raw store disagree")
	v1, h1 := serial(a, b, 1, 2)
	v2, h2 := serial(b, a, 2, 1)
	ok1 := h1 == (rerr == nil) && (!h1 || raw == v1)
	ok2 := h2 == (rerr == nil) && (!h2 || raw == v2)
	verifrt.Assert(ok1 || ok2, "the result of two concurrent writers matches neither serial order (lost update)")
}

// H_C06_empty: a value whose encoding is the EMPTY byte string (a set marker, an empty string) is a value like any
// other: after Set the typed view (TypedStore and TypedValue) reports it, exactly like the raw store does.
//
//verif:h prop=C06 cover=store,value
func H_C06_empty() {
	enc := func(v uint8) ([]byte, error) {
		if v == 0 {
			return []byte{}, nil
		}

		return []byte{v}, nil
	}
	dec := func(b []byte) (uint8, int, error) {
		if len(b) == 0 {
			return 0, 0, nil
		}

		return b[0], 1, nil
	}
	keyEnc := func(k uint8) ([]byte, error) { return []byte{k}, nil }
	keyDec := func(b []byte) (uint8, int, error) { return b[0], 1, nil }
	raw := &c06Map{}
	v := verifrt.U8("v") // 0 encodes to nothing
	if verifrt.Choose("which", 2) == 0 {
		ts := NewTypedStore[uint8, uint8](raw, keyEnc, keyDec, enc, dec)
		verifrt.Assert(ts.Set(7, v) == nil, "TypedStore.Set failed on a working store")
		got, err := ts.Get(7)
		verifrt.Assert(err == nil && got == v, "TypedStore.Get does not return a value that was just set (a value with an empty encoding counts as missing)")
		has, herr := ts.Has(7)
		verifrt.Assert(herr == nil && has, "TypedStore.Has does not report a key that was just set")
		seen := 0
		ierr := ts.Iterate(EmptyPrefix, func(k, val uint8) bool {
			seen++
			verifrt.Assert(k == 7 && val == v, "TypedStore.Iterate reports a different entry than was set")

			return true
		})
		verifrt.Assert(ierr == nil && seen == 1, "TypedStore.Iterate does not visit the entry that was just set")
		verifrt.Cover("store")
	} else {
		tv := NewTypedValue[uint8](raw, []byte{9}, enc, dec)
		verifrt.Assert(tv.Set(v) == nil, "TypedValue.Set failed on a working store")
		fresh := NewTypedValue[uint8](raw, []byte{9}, enc, dec) // no cache: reads the raw entry
		got, err := fresh.Get()
		verifrt.Assert(err == nil && got == v, "TypedValue.Get does not return a stored value whose encoding is empty")
		has, herr := fresh.Has()
		verifrt.Assert(herr == nil && has, "TypedValue.Has does not report a stored value whose encoding is empty")
		verifrt.Cover("value")
	}
}
