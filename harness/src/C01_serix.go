//verif:pkg serializer/serix
package serix

import (
	"bytes"
	"context"
	"math/big"
	"time"

	"verifrt"

	"github.com/iancoleman/orderedmap"

	"github.com/iotaledger/hive.go/serializer/v2"
)

// Tier 2 of C01 / C02 / C03: serix's reflection layer (encode.go, decode.go, struct tags, type settings,
// interface registry, validators), executed through the engine's model of package reflect over a fixed zoo of
// registered types. Field VALUES, collection lengths and, for the decoders, the whole input are symbolic; the
// shapes of the types are the zoo's.

type zShape interface{ zShape() }

type zSquare struct {
	Size uint8 `serix:""`
}

type zTriangle struct {
	Size uint16 `serix:""`
}

func (*zSquare) zShape()   {}
func (*zTriangle) zShape() {}

type zInner struct {
	X uint16 `serix:""`
	Y bool   `serix:""`
}

type ZEmbedded struct {
	E uint8 `serix:""`
}

// flat numbers, nested struct, inlined embedded struct
type zNums struct {
	U8        uint8  `serix:""`
	I16       int16  `serix:""`
	U32       uint32 `serix:""`
	I64       int64  `serix:""`
	Inner     zInner `serix:""`
	ZEmbedded `serix:",inlined"`
	skipped   uint8
}

// length-prefixed bytes / string, fixed array
type zBytes struct {
	S   string  `serix:",lenPrefix=uint8,maxLen=2"`
	B   []byte  `serix:",lenPrefix=uint16,minLen=1,maxLen=2"`
	Arr [2]byte `serix:""`
}

// optional pointer and interface with a uint8 type prefix
type zOpt struct {
	Opt   *zInner `serix:",optional"`
	Shape zShape  `serix:""`
	Tail  uint8   `serix:""`
}

// slice of interface objects under array rules; map with lexically ordered keys
type zShapes []zShape

type zColl struct {
	Shapes zShapes         `serix:""`
	M      map[uint8]uint8 `serix:",lenPrefix=uint8,maxLen=2"`
}

// a map type whose registered settings explicitly switch lexical ordering off (maps are ordered regardless)
type zUMap map[uint8]uint8

type zUnordered struct {
	M zUMap `serix:""`
}

// time stamp, slice and array of structs
type zTimed struct {
	T    time.Time `serix:""`
	List []zInner  `serix:",lenPrefix=uint16,maxLen=2"`
	Pair [2]zInner `serix:",lenPrefix=uint8"`
}

// slice elements with an optional pointer; a named string type whose registered settings (uint16 prefix) are
// overridden by the struct tag (uint8 prefix); a tiny optional; a map with pointer values
type zTiny struct {
	V uint8 `serix:""`
}

type zOptElem struct {
	Opt *zTiny `serix:",optional"`
	K   uint8  `serix:""`
}

type zName string

type zList struct {
	L []zOptElem `serix:",lenPrefix=uint8"`
	N zName      `serix:",lenPrefix=uint8"`
}

type zOptTiny struct {
	Opt *zTiny `serix:",optional"`
}

type zPtrMap struct {
	M map[uint8]*zTiny `serix:",lenPrefix=uint8"`
}

type zPair struct {
	Pair [2]zTiny `serix:",lenPrefix=uint8"`
}

// a slice of named, length-prefixed elements inside a collection with another prefix width
type zNames struct {
	Names []zName `serix:",lenPrefix=uint8"`
}

// an embedded pointer to an unexported struct type: a fresh destination cannot be filled (error, not panic)
type zhidden struct {
	H uint8 `serix:""`
}

type zEmbPtr struct {
	*zhidden `serix:""`
	K        uint8 `serix:""`
}

// a type that encodes / decodes itself, registered with a uint8 type code
type zCustom struct {
	V uint8
}

func (c zCustom) Encode() ([]byte, error) { return []byte{c.V ^ 0x5a}, nil }
func (c *zCustom) Decode(b []byte) (int, error) {
	if len(b) < 1 {
		return 0, serializer.ErrDeserializationNotEnoughData
	}
	c.V = b[0] ^ 0x5a

	return 1, nil
}

type zCustomHolder struct {
	C zCustom `serix:""`
	T uint8   `serix:""`
}

// interface objects under must-occur / at-most-one-of-each-type rules
type zStrict []zShape

type zStrictHolder struct {
	S zStrict `serix:""`
}

// uint256
type zBig struct {
	V *big.Int `serix:""`
	T uint8    `serix:""`
}

// a struct with an object type code (uint32 prefix) and a registered syntactic validator
type zCoded struct {
	N uint8 `serix:""`
}

var zErrInvalid = serializer.ErrDeserializationNotEnoughData

func zAPI() *API {
	api := NewAPI()
	must := func(err error) {
		if err != nil {
			panic(err)
		}
	}
	must(api.RegisterTypeSettings(zSquare{}, TypeSettings{}.WithObjectType(uint8(100))))
	must(api.RegisterTypeSettings(zTriangle{}, TypeSettings{}.WithObjectType(uint8(102))))
	must(api.RegisterInterfaceObjects((*zShape)(nil), (*zSquare)(nil), (*zTriangle)(nil)))
	must(api.RegisterTypeSettings(zShapes{}, TypeSettings{}.WithLengthPrefixType(LengthPrefixTypeAsByte).WithArrayRules(&ArrayRules{
		Min: 0, Max: 2, ValidationMode: serializer.ArrayValidationModeNoDuplicates | serializer.ArrayValidationModeLexicalOrdering,
	})))
	must(api.RegisterTypeSettings(zStrict{}, TypeSettings{}.WithLengthPrefixType(LengthPrefixTypeAsByte).WithArrayRules(&ArrayRules{
		Min: 0, Max: 3, MustOccur: serializer.TypePrefixes{uint32(100): struct{}{}},
		ValidationMode: serializer.ArrayValidationModeAtMostOneOfEachTypeByte,
	})))
	must(api.RegisterTypeSettings(zCustom{}, TypeSettings{}.WithObjectType(uint8(9))))
	must(api.RegisterTypeSettings(zName(""), TypeSettings{}.WithLengthPrefixType(LengthPrefixTypeAsUint16)))
	must(api.RegisterTypeSettings(zUMap{}, TypeSettings{}.WithLengthPrefixType(LengthPrefixTypeAsByte).WithLexicalOrdering(false)))
	must(api.RegisterTypeSettings(zCoded{}, TypeSettings{}.WithObjectType(uint32(7))))
	must(api.RegisterValidator(zCoded{}, func(_ context.Context, c zCoded) error {
		if c.N == 0xff {
			return zErrInvalid
		}

		return nil
	}))

	return api
}

func zOpts() []Option {
	if verifrt.Choose("validation", 2) == 1 {
		return []Option{WithValidation()}
	}

	return nil
}

func zLE(v uint64, width int) []byte {
	b := make([]byte, width)
	for i := 0; i < width; i++ {
		b[i] = byte(v >> (8 * uint(i)))
	}

	return b
}

func zBool(b bool) byte { return verifrt.IteByte(b, 1, 0) }

func zCat(parts ...[]byte) []byte {
	var out []byte
	for _, p := range parts {
		out = append(out, p...)
	}

	return out
}

func zShapeValue(name string) zShape {
	switch verifrt.Choose(name, 2) {
	case 0:
		return &zSquare{Size: verifrt.U8(name + ".size")}
	default:
		return &zTriangle{Size: verifrt.U16(name + ".size")}
	}
}

// zShapeRef is the reference encoding of an interface object: uint8 type code, then the fields.
func zShapeRef(s zShape) []byte {
	switch s := s.(type) {
	case *zSquare:
		return []byte{100, s.Size}
	case *zTriangle:
		return zCat([]byte{102}, zLE(uint64(s.Size), 2))
	}

	return nil
}

func zShapeEq(a, b zShape) bool {
	switch a := a.(type) {
	case *zSquare:
		bb, ok := b.(*zSquare)

		return ok && bb != nil && verifrt.And(true, a.Size == bb.Size)
	case *zTriangle:
		bb, ok := b.(*zTriangle)

		return ok && bb != nil && verifrt.And(true, a.Size == bb.Size)
	}

	return a == nil && b == nil
}

// H_C01_serix: for every shape of the zoo and every field value: Encode succeeds or reports an error (never both a
// value and garbage); when it succeeds the bytes equal the reference layout computed by hand in the harness (C03
// forward), Decode yields an equal value and consumes exactly the bytes produced (C01), and a second Encode gives
// identical bytes (also with the map filled in another order).
//
//verif:h prop=C01 cover=nums,bytes,opt-nil,opt-set,coll,big,coded,refused,unordered-map,timed,strict,list,ptrmap,names,custom steps=3000000 runs=3000000 timeout=900/900 reversemaps=1
func H_C01_serix() { zRoundTrip() }

// H_C03_serix_layout: the same exploration registered under C03 (its assertions include the comparison of Encode's
// output with the reference layout written by hand in this file).
//
//verif:h prop=C03 cover=nums,bytes,opt-nil,opt-set,coll,big,coded,refused,unordered-map,timed,strict,list,ptrmap,names,custom steps=3000000 runs=3000000 timeout=900/900 reversemaps=1
func H_C03_serix_layout() { zRoundTrip() }

func zRoundTrip() {
	api := zAPI()
	ctx := context.Background()
	opts := zOpts()
	validating := len(opts) > 0
	switch verifrt.Choose("shape", 13) {
	case 11:
		v := &zNames{}
		var ref []byte
		n := verifrt.Choose("n", 3)
		ref = append(ref, byte(n))
		for k := 0; k < n; k++ {
			nm := zName(verifrt.Bytes("nm", 1))
			if len(nm) == 1 {
				verifrt.Assume(nm[0] < 0x80)
			}
			v.Names = append(v.Names, nm)
			ref = zCat(ref, zLE(uint64(len(nm)), 2), []byte(nm)) // the element's own registered prefix (uint16), not the collection's
		}
		enc, err := api.Encode(ctx, v, opts...)
		verifrt.Assert(err == nil && bytes.Equal(enc, ref), "Encode of a slice of named length-prefixed elements differs from the documented layout (elements carry their own registered prefix)")
		out := &zNames{}
		cnt, derr := api.Decode(ctx, enc, out, opts...)
		same := derr == nil && cnt == len(enc) && len(out.Names) == len(v.Names)
		for k := range v.Names {
			if k < len(out.Names) {
				same = verifrt.And(same, out.Names[k] == v.Names[k])
			}
		}
		verifrt.Assert(same, "Decode(Encode(v)) differs from v (slice of named length-prefixed elements)")
		verifrt.Cover("names")
	case 12:
		v := &zCustomHolder{C: zCustom{V: verifrt.U8("cv")}, T: verifrt.U8("t")}
		enc, err := api.Encode(ctx, v, opts...)
		verifrt.Assert(err == nil && bytes.Equal(enc, []byte{9, v.C.V ^ 0x5a, v.T}), "Encode of a self-encoding type with a type code differs from the documented layout (type code, then its own bytes)")
		out := &zCustomHolder{}
		cnt, derr := api.Decode(ctx, enc, out, opts...)
		verifrt.Assert(derr == nil && cnt == len(enc) && *out == *v, "Decode(Encode(v)) differs from v (self-encoding type with a type code)")
		verifrt.Cover("custom")
	case 9:
		v := &zList{N: zName(verifrt.Bytes("name", 1))}
		if len(v.N) == 1 {
			verifrt.Assume(v.N[0] < 0x80)
		}
		for k, n := 0, verifrt.Choose("n", 3); k < n; k++ {
			e := zOptElem{K: verifrt.U8("k")}
			if verifrt.Choose("opt", 2) == 1 {
				e.Opt = &zTiny{V: verifrt.U8("ov")}
			}
			v.L = append(v.L, e)
		}
		enc, err := api.Encode(ctx, v, opts...)
		ref := []byte{byte(len(v.L))}
		for _, e := range v.L {
			if e.Opt == nil {
				ref = zCat(ref, zLE(0, 4), []byte{e.K})
			} else {
				ref = zCat(ref, zLE(1, 4), []byte{e.Opt.V, e.K})
			}
		}
		ref = zCat(ref, []byte{byte(len(v.N))}, []byte(v.N)) // the struct tag's uint8 prefix wins over the registered uint16
		verifrt.Assert(err == nil && bytes.Equal(enc, ref), "Encode of slice elements with optional fields / a named string with a tag override differs from the documented layout")
		out := &zList{}
		n, derr := api.Decode(ctx, enc, out, opts...)
		verifrt.Assert(derr == nil && n == len(enc) && len(out.L) == len(v.L), "Decode failed or did not consume exactly the bytes produced (slice elements with optional fields)")
		same := out.N == v.N
		for k := range v.L {
			if k >= len(out.L) {
				break
			}
			same = verifrt.And(same, out.L[k].K == v.L[k].K)
			if v.L[k].Opt == nil {
				same = verifrt.And(same, out.L[k].Opt == nil)
			} else {
				same = verifrt.And(same, out.L[k].Opt != nil && out.L[k].Opt.V == v.L[k].Opt.V)
			}
			for j := 0; j < k; j++ {
				if out.L[k].Opt != nil {
					same = verifrt.And(same, out.L[k].Opt != out.L[j].Opt) // no aliasing between decoded elements
				}
			}
		}
		verifrt.Assert(same, "Decode(Encode(v)) differs from v (slice elements with optional fields / named string)")
		verifrt.Cover("list")
	case 10:
		v := &zPtrMap{M: map[uint8]*zTiny{}}
		k0 := verifrt.U8("k0")
		if verifrt.Choose("entries", 2) == 1 {
			v.M[k0] = &zTiny{V: verifrt.U8("v0")}
		}
		enc, err := api.Encode(ctx, v, opts...)
		ref := []byte{byte(len(v.M))}
		if len(v.M) == 1 {
			ref = append(ref, k0, v.M[k0].V)
		}
		verifrt.Assert(err == nil && bytes.Equal(enc, ref), "Encode of a map with pointer values differs from the documented layout")
		out := &zPtrMap{}
		n, derr := api.Decode(ctx, enc, out, opts...)
		verifrt.Assert(derr == nil && n == len(enc) && len(out.M) == len(v.M), "Decode failed or did not consume exactly the bytes produced (map with pointer values)")
		if len(v.M) == 1 {
			got := out.M[k0]
			verifrt.Assert(got != nil && got.V == v.M[k0].V, "Decode(Encode(v)) differs from v (map with pointer values)")
		}
		verifrt.Cover("ptrmap")
	case 7:
		ns := verifrt.I64("ns")
		verifrt.Assume(ns >= 0)
		v := &zTimed{T: time.Unix(0, ns), Pair: [2]zInner{{X: verifrt.U16("p0"), Y: verifrt.Bool("q0")}, {X: verifrt.U16("p1"), Y: verifrt.Bool("q1")}}}
		for k, n := 0, verifrt.Choose("list", 4); k < n; k++ {
			v.List = append(v.List, zInner{X: verifrt.U16("lx"), Y: verifrt.Bool("ly")})
		}
		enc, err := api.Encode(ctx, v, opts...)
		if len(v.List) > 2 {
			verifrt.Cover("refused")
			verifrt.Assert(err != nil || !validating, "Encode with validation accepted a slice longer than its maxLen")
			if err != nil {
				return
			}
		}
		ref := zCat(zLE(uint64(ns), 8), zLE(uint64(len(v.List)), 2))
		for _, e := range v.List {
			ref = zCat(ref, zLE(uint64(e.X), 2), []byte{zBool(e.Y)})
		}
		ref = append(ref, 2) // arrays of non-byte elements carry a length prefix like slices
		for _, e := range v.Pair {
			ref = zCat(ref, zLE(uint64(e.X), 2), []byte{zBool(e.Y)})
		}
		verifrt.Assert(err == nil && bytes.Equal(enc, ref), "Encode of a time stamp / slice of structs / array of structs differs from the documented layout")
		out := &zTimed{}
		n, derr := api.Decode(ctx, enc, out, opts...)
		verifrt.Assert(derr == nil && n == len(enc), "Decode failed or did not consume exactly the bytes produced")
		same := verifrt.And(out.T.UnixNano() == ns, out.Pair == v.Pair)
		same = verifrt.And(same, len(out.List) == len(v.List))
		for k := range v.List {
			if k < len(out.List) {
				same = verifrt.And(same, out.List[k] == v.List[k])
			}
		}
		verifrt.Assert(same, "Decode(Encode(v)) differs from v (time stamp / slice of structs / array of structs)")
		verifrt.Cover("timed")
	case 8:
		v := &zStrictHolder{}
		squares := 0
		triangles := 0
		for k, n := 0, verifrt.Choose("n", 4); k < n; k++ {
			e := zShapeValue("el")
			if _, ok := e.(*zSquare); ok {
				squares++
			} else {
				triangles++
			}
			v.S = append(v.S, e)
		}
		enc, err := api.Encode(ctx, v, opts...)
		legal := squares == 1 && triangles <= 1
		if validating {
			verifrt.Assert((err == nil) == legal, "Encode with validation does not enforce must-occur / at-most-one-of-each-type exactly")
		} else {
			verifrt.Assert(err == nil, "Encode without validation refused a collection")
		}
		if err != nil {
			verifrt.Cover("refused")

			return
		}
		ref := []byte{byte(len(v.S))}
		for _, e := range v.S {
			ref = append(ref, zShapeRef(e)...)
		}
		verifrt.Assert(bytes.Equal(enc, ref), "Encode of interface objects under strict array rules differs from the documented layout")
		out := &zStrictHolder{}
		n, derr := api.Decode(ctx, enc, out, opts...)
		verifrt.Assert(derr == nil && n == len(enc) && len(out.S) == len(v.S), "Decode failed or did not consume exactly the bytes produced (strict rules)")
		same := true
		for k := range v.S {
			if k < len(out.S) {
				same = verifrt.And(same, zShapeEq(v.S[k], out.S[k]))
			}
		}
		verifrt.Assert(same, "Decode(Encode(v)) differs from v (strict rules)")
		verifrt.Cover("strict")
	case 6:
		k0, k1, v0, v1 := verifrt.U8("k0"), verifrt.U8("k1"), verifrt.U8("v0"), verifrt.U8("v1")
		verifrt.Assume(k0 != k1)
		a := &zUnordered{M: zUMap{}}
		a.M[k0] = v0
		a.M[k1] = v1
		b := &zUnordered{M: zUMap{}}
		b.M[k1] = v1
		b.M[k0] = v0
		encA, errA := api.Encode(ctx, a, opts...)
		encB, errB := api.Encode(ctx, b, opts...)
		verifrt.Assert(errA == nil && errB == nil && bytes.Equal(encA, encB), "encoding the same map filled in another order gives different bytes (or fails) when its type settings switch ordering off")
		lo := k0 < k1
		ref := []byte{2, verifrt.IteByte(lo, k0, k1), verifrt.IteByte(lo, v0, v1), verifrt.IteByte(lo, k1, k0), verifrt.IteByte(lo, v1, v0)}
		verifrt.Assert(bytes.Equal(encA, ref), "map entries are not encoded in byte-lexical order of their keys")
		out := &zUnordered{}
		n, derr := api.Decode(ctx, encA, out, opts...)
		verifrt.Assert(derr == nil && n == len(encA) && len(out.M) == 2, "Decode failed or did not consume exactly the bytes produced (map)")
		verifrt.Cover("unordered-map")
	case 0:
		v := &zNums{U8: verifrt.U8("u8"), I16: verifrt.I16("i16"), U32: verifrt.U32("u32"), I64: verifrt.I64("i64"),
			Inner: zInner{X: verifrt.U16("x"), Y: verifrt.Bool("y")}, ZEmbedded: ZEmbedded{E: verifrt.U8("e")}, skipped: 9}
		enc, err := api.Encode(ctx, v, opts...)
		want := zCat([]byte{v.U8}, zLE(uint64(uint16(v.I16)), 2), zLE(uint64(v.U32), 4), zLE(uint64(v.I64), 8), zLE(uint64(v.Inner.X), 2), []byte{zBool(v.Inner.Y)}, []byte{v.E})
		verifrt.Assert(err == nil && bytes.Equal(enc, want), "Encode of numbers / nested / inlined structs differs from the documented layout")
		out := &zNums{}
		n, derr := api.Decode(ctx, enc, out, opts...)
		verifrt.Assert(derr == nil && n == len(enc), "Decode failed or did not consume exactly the bytes produced")
		out.skipped = v.skipped
		verifrt.Assert(*out == *v, "Decode(Encode(v)) differs from v (numbers / nested / inlined structs)")
		verifrt.Cover("nums")
	case 1:
		v := &zBytes{S: string(verifrt.Bytes("s", 3)), B: verifrt.Bytes("b", 3), Arr: [2]byte{verifrt.U8("a0"), verifrt.U8("a1")}}
		for i := 0; i < len(v.S); i++ {
			verifrt.Assume(v.S[i] < 0x80) // ASCII: UTF-8 validity is not the subject
		}
		enc, err := api.Encode(ctx, v, opts...)
		inBounds := len(v.S) <= 2 && len(v.B) >= 1 && len(v.B) <= 2
		if !inBounds {
			// the byte-slice bounds are enforced by the primitives in both modes, the string bounds with validation
			verifrt.Cover("refused")
			verifrt.Assert(err != nil || !validating, "Encode with validation accepted a string / byte slice outside its minLen/maxLen bounds")
			if err != nil {
				return
			}
		}
		want := zCat([]byte{byte(len(v.S))}, []byte(v.S), zLE(uint64(len(v.B)), 2), v.B, v.Arr[:])
		verifrt.Assert(err == nil && bytes.Equal(enc, want), "Encode of string / byte slice / array differs from the documented layout")
		out := &zBytes{}
		n, derr := api.Decode(ctx, enc, out, opts...)
		verifrt.Assert(derr == nil && n == len(enc), "Decode failed or did not consume exactly the bytes produced")
		verifrt.Assert(verifrt.And(out.S == v.S, verifrt.And(bytes.Equal(out.B, v.B), out.Arr == v.Arr)), "Decode(Encode(v)) differs from v (string / bytes / array)")
		verifrt.Cover("bytes")
	case 2:
		v := &zOpt{Shape: zShapeValue("shape"), Tail: verifrt.U8("tail")}
		if verifrt.Choose("opt", 2) == 1 {
			v.Opt = &zInner{X: verifrt.U16("x"), Y: verifrt.Bool("y")}
			verifrt.Cover("opt-set")
		} else {
			verifrt.Cover("opt-nil")
		}
		enc, err := api.Encode(ctx, v, opts...)
		var optRef []byte
		if v.Opt == nil {
			optRef = zLE(0, 4) // uint32 length marker: absent
		} else {
			optRef = zCat(zLE(3, 4), zLE(uint64(v.Opt.X), 2), []byte{zBool(v.Opt.Y)})
		}
		want := zCat(optRef, zShapeRef(v.Shape), []byte{v.Tail})
		verifrt.Assert(err == nil && bytes.Equal(enc, want), "Encode of optional pointer / interface object differs from the documented layout")
		out := &zOpt{}
		n, derr := api.Decode(ctx, enc, out, opts...)
		verifrt.Assert(derr == nil && n == len(enc), "Decode failed or did not consume exactly the bytes produced")
		same := verifrt.And(out.Tail == v.Tail, zShapeEq(v.Shape, out.Shape))
		if v.Opt == nil {
			same = verifrt.And(same, out.Opt == nil)
		} else {
			same = verifrt.And(same, out.Opt != nil && *out.Opt == *v.Opt)
		}
		verifrt.Assert(same, "Decode(Encode(v)) differs from v (optional pointer / interface object)")
	case 3:
		v := &zColl{M: map[uint8]uint8{}}
		for k, n := 0, verifrt.Choose("shapes", 3); k < n; k++ {
			v.Shapes = append(v.Shapes, zShapeValue("el"))
		}
		nm := verifrt.Choose("entries", 3)
		k0, k1 := verifrt.U8("k0"), verifrt.U8("k1")
		v0, v1 := verifrt.U8("v0"), verifrt.U8("v1")
		verifrt.Assume(k0 != k1)
		other := map[uint8]uint8{}
		if nm >= 1 {
			v.M[k0] = v0
		}
		if nm == 2 {
			v.M[k1] = v1
			other[k1] = v1
		}
		if nm >= 1 {
			other[k0] = v0
		}
		enc, err := api.Encode(ctx, v, opts...)
		if err != nil {
			// only validation may refuse: duplicates / order of the shapes
			verifrt.Cover("refused")
			verifrt.Assert(validating, "Encode without validation refused a collection")

			return
		}
		// reference: shapes in the given order; map entries in byte-lexical order of the key
		ref := []byte{byte(len(v.Shapes))}
		for _, s := range v.Shapes {
			ref = append(ref, zShapeRef(s)...)
		}
		ref = append(ref, byte(nm))
		switch nm {
		case 1:
			ref = append(ref, k0, v0)
		case 2:
			lo := k0 < k1
			ref = append(ref, verifrt.IteByte(lo, k0, k1), verifrt.IteByte(lo, v0, v1), verifrt.IteByte(lo, k1, k0), verifrt.IteByte(lo, v1, v0))
		}
		verifrt.Assert(bytes.Equal(enc, ref), "Encode of a slice of interface objects / a map differs from the documented layout (map entries in byte-lexical order)")
		enc2, err2 := api.Encode(ctx, &zColl{Shapes: v.Shapes, M: other}, opts...)
		verifrt.Assert(err2 == nil && bytes.Equal(enc, enc2), "encoding the same map filled in another order gives different bytes")
		out := &zColl{}
		n, derr := api.Decode(ctx, enc, out, opts...)
		verifrt.Assert(derr == nil && n == len(enc), "Decode failed or did not consume exactly the bytes produced")
		same := len(out.Shapes) == len(v.Shapes) && len(out.M) == nm
		for k := range v.Shapes {
			if k < len(out.Shapes) {
				same = verifrt.And(same, zShapeEq(v.Shapes[k], out.Shapes[k]))
			}
		}
		if nm >= 1 {
			got, ok := out.M[k0]
			same = verifrt.And(same, verifrt.And(ok, got == v0))
		}
		if nm == 2 {
			got, ok := out.M[k1]
			same = verifrt.And(same, verifrt.And(ok, got == v1))
		}
		verifrt.Assert(same, "Decode(Encode(v)) differs from v (slice of interface objects / map)")
		verifrt.Cover("coll")
	case 4:
		raw := verifrt.BytesN("big", 32) // big-endian magnitude
		v := &zBig{V: new(big.Int).SetBytes(raw), T: verifrt.U8("t")}
		enc, err := api.Encode(ctx, v, opts...)
		ref := make([]byte, 33)
		for i := 0; i < 32; i++ {
			ref[i] = raw[31-i]
		}
		ref[32] = v.T
		verifrt.Assert(err == nil && bytes.Equal(enc, ref), "Encode of a uint256 differs from the documented layout (32 little-endian bytes)")
		out := &zBig{}
		n, derr := api.Decode(ctx, enc, out, opts...)
		verifrt.Assert(derr == nil && n == len(enc), "Decode failed or did not consume exactly the bytes produced")
		verifrt.Assert(out.V != nil && out.V.Cmp(v.V) == 0 && out.T == v.T, "Decode(Encode(v)) differs from v (uint256)")
		verifrt.Cover("big")
	case 5:
		v := &zCoded{N: verifrt.U8("n")}
		enc, err := api.Encode(ctx, v, opts...)
		if validating && v.N == 0xff {
			verifrt.Cover("refused")
			verifrt.Assert(err != nil, "Encode with validation accepted a value that the registered validator rejects")

			return
		}
		verifrt.Assert(err == nil && bytes.Equal(enc, []byte{7, 0, 0, 0, v.N}), "Encode of an object with a uint32 type code differs from the documented layout")
		out := &zCoded{}
		n, derr := api.Decode(ctx, enc, out, opts...)
		verifrt.Assert(derr == nil && n == len(enc) && *out == *v, "Decode(Encode(v)) differs from v (object with type code)")
		verifrt.Cover("coded")
	}
}

// H_C02_serix: arbitrary input handed to serix.Decode for every target shape of the zoo, with and without
// validation: no panic, never more consumed bytes than supplied, allocations bounded by the input (C02); and when the
// validating decoder accepts, re-encoding the decoded value with validation succeeds and yields exactly the
// consumed bytes (C03 reverse).
//
//verif:h prop=C02 p.maxlen=5/7 cover=accepted,rejected steps=3000000 runs=3000000 timeout=900/900 maxvals=300
func H_C02_serix() { zDecodeArbitrary(false, -1) }

// H_C03_serix_canonical: the validating decoder only (C03 reverse direction).
//
//verif:h prop=C03 p.maxlen=5/7 cover=accepted,rejected,canonical steps=3000000 runs=3000000 timeout=900/900 maxvals=300
func H_C03_serix_canonical() { zDecodeArbitrary(true, -1) }

// H_C03_serix_optional: the same for the optional-field target alone, with inputs long enough to hold a length
// marker that is larger than the field it announces.
//
//verif:h prop=C03 p.maxlen=6/8 cover=accepted,rejected,canonical steps=3000000 runs=3000000 timeout=900/900 maxvals=300
func H_C03_serix_optional() { zDecodeArbitrary(true, 8) }

func zDecodeArbitrary(canonical bool, only int) {
	api := zAPI()
	ctx := context.Background()
	b := verifrt.Bytes("b", verifrt.Param("maxlen", 5))
	verifrt.AllocBudget(2*len(b) + 64)
	var opts []Option
	if canonical {
		opts = []Option{WithValidation()}
	} else {
		opts = zOpts()
	}
	validating := len(opts) > 0
	var target any
	shape := only
	if shape < 0 {
		shape = verifrt.Choose("shape", 12)
	}
	switch shape {
	case 10:
		target = &zEmbPtr{}
	case 11:
		target = &zCustomHolder{}
	case 8:
		target = &zOptTiny{}
	case 9:
		target = &zPtrMap{}
	case 7:
		target = &zPair{}
	case 5:
		target = &zStrictHolder{}
	case 6:
		target = &zUnordered{}
	case 0:
		target = &zBytes{}
	case 1:
		target = &zOpt{}
	case 2:
		target = &zColl{}
	case 3:
		target = &zCoded{}
	case 4:
		target = &zInner{}
	}
	var n int
	var err error
	func() {
		defer func() {
			if r := recover(); r != nil {
				verifrt.Assert(false, "serix.Decode panicked on arbitrary input")
			}
		}()
		n, err = api.Decode(ctx, b, target, opts...)
	}()
	if err != nil {
		verifrt.Cover("rejected")

		return
	}
	verifrt.Cover("accepted")
	verifrt.Assert(n >= 0 && n <= len(b), "serix.Decode reports more consumed bytes than were supplied")
	if !validating || !canonical {
		return
	}
	enc, eerr := api.Encode(ctx, target, opts...)
	verifrt.Assert(eerr == nil && bytes.Equal(enc, b[:n]), "the validating serix decoder accepted bytes whose re-encoding (with validation) fails or differs from the consumed bytes")
	verifrt.Cover("canonical")
}

// ---------------------------------------------------------------------------------------------------------
// C02, JSON/map form: MapDecode on well-formed JSON of the wrong shape. Nothing is symbolic here (numbers travel
// as float64 and as decimal / hex strings): the JSON-shaped values are enumerated from a small alphabet of
// shapes. The only assertion is totality: a value or an error, never a panic.

type zJSONTarget struct {
	N8  uint8     `serix:""`
	N64 uint64    `serix:""`
	F   float32   `serix:""`
	B   bool      `serix:""`
	S   string    `serix:",lenPrefix=uint8"`
	By  []byte    `serix:",lenPrefix=uint8"`
	Arr [2]byte   `serix:""`
	T   time.Time `serix:""`
	Big *big.Int  `serix:""`
	In  zInner    `serix:""`
	L   []zInner  `serix:",lenPrefix=uint8"`
	Sh  zShape    `serix:""`
	Op  *zTiny    `serix:",optional"`
}

func zJSONValue(name string) any {
	switch verifrt.Choose(name, 8) {
	case 0:
		return "1"
	case 1:
		return float64(1)
	case 2:
		return true
	case 3:
		return nil
	case 4:
		return []any{float64(1)}
	case 5:
		return map[string]any{"type": float64(100), "size": float64(1)}
	case 6:
		return "0x0102"
	default:
		return map[string]any{"x": "1"}
	}
}

// zPlain converts the ordered maps MapEncode produces into the plain map[string]any / []any trees a JSON decoder
// would hand to MapDecode.
func zPlain(v any) any {
	switch x := v.(type) {
	case *orderedmap.OrderedMap:
		out := map[string]any{}
		for _, k := range x.Keys() {
			e, _ := x.Get(k)
			out[k] = zPlain(e)
		}

		return out
	case orderedmap.OrderedMap:
		return zPlain(&x)
	case []any:
		out := make([]any, len(x))
		for i := range x {
			out[i] = zPlain(x[i])
		}

		return out
	case uint8:
		return float64(x)
	case uint16:
		return float64(x)
	case uint32:
		return float64(x)
	case int8:
		return float64(x)
	case int16:
		return float64(x)
	case int32:
		return float64(x)
	case uint64: // MapEncode hands numbers of up to 32 bits on as 64-bit values; JSON turns them into numbers
		return float64(x)
	case int64:
		return float64(x)
	}

	return v
}

//verif:h prop=C02 cover=accepted,rejected native=0 runs=3000000 timeout=900/900 steps=3000000
func H_C02_serix_map() {
	api := zAPI()
	ctx := context.Background()
	fields := []string{"n8", "n64", "f", "b", "s", "by", "arr", "t", "big", "in", "l", "sh", "op"}
	var target any
	doc := map[string]any{}
	if verifrt.Choose("small", 2) == 1 {
		// a two-field struct with every combination of shapes (the right one included)
		target = &zInner{}
		doc["x"], doc["y"] = zJSONValue("sx"), zJSONValue("sy")
	} else {
		// a complete, valid document (the map form of a valid value) in which one field is replaced by a value of
		// an arbitrary JSON shape
		target = &zJSONTarget{}
		valid := &zJSONTarget{N8: 1, N64: 2, F: 1, B: true, S: "a", By: []byte{1}, Arr: [2]byte{1, 2}, T: time.Unix(0, 5), Big: big.NewInt(7),
			In: zInner{X: 1, Y: true}, L: []zInner{{X: 2}}, Sh: &zSquare{Size: 3}}
		om, merr := api.MapEncode(ctx, valid)
		verifrt.Assert(merr == nil && om != nil, "MapEncode of a valid value failed")
		doc = zPlain(om).(map[string]any)
		doc[fields[verifrt.Choose("field", len(fields))]] = zJSONValue("shape")
	}
	opts := zOpts()
	var err error
	func() {
		defer func() {
			if r := recover(); r != nil {
				verifrt.Assert(false, "serix.MapDecode panicked on well-formed JSON of the wrong shape")
			}
		}()
		err = api.MapDecode(ctx, doc, target, opts...)
	}()
	if err != nil {
		verifrt.Cover("rejected")
	} else {
		verifrt.Cover("accepted")
	}
}
