//verif:pkg ds/onchangemap
package onchangemap

import (
	"errors"

	"verifrt"
)

// Property C12 (OnChangeMap): a keyed store whose callbacks mirror every change; callback errors propagate.

type c12ID uint8

func (i c12ID) Key() uint8     { return uint8(i) }
func (i c12ID) String() string { return "id" }

type c12Item struct {
	id  c12ID
	val uint8
}

func (i *c12Item) ID() c12ID { return i.id }
func (i *c12Item) Clone() Item[uint8, c12ID] {
	return &c12Item{id: i.id, val: i.val}
}

var errC12Callback = errors.New("callback failed")

//verif:h prop=C12 p.ops=3/4 cover=add,add-dup,modify,delete,callback-error,disabled runs=1000000 timeout=900/1200
func H_C12_onchangemap() {
	var added, modified, deleted []uint8 // mirrored change log (ids)
	var lastAll int
	failNext := false
	cb := func(log *[]uint8) func(*c12Item) error {
		return func(it *c12Item) error {
			*log = append(*log, uint8(it.id))
			if failNext {
				return errC12Callback
			}

			return nil
		}
	}
	m := NewOnChangeMap(
		WithChangedCallback[uint8, c12ID](func(items []*c12Item) error { lastAll = len(items); return nil }),
		WithItemAddedCallback[uint8, c12ID](cb(&added)),
		WithItemModifiedCallback[uint8, c12ID](cb(&modified)),
		WithItemDeletedCallback[uint8, c12ID](cb(&deleted)),
	)
	enabled := verifrt.Choose("enabled", 2) == 1
	m.CallbacksEnabled(enabled)
	var mk, mv []uint8
	idx := func(k uint8) int {
		for i := range mk {
			if mk[i] == k {
				return i
			}
		}

		return -1
	}
	u := [2]uint8{verifrt.U8("k0"), verifrt.U8("k1")}
	n := verifrt.Param("ops", 3)
	for s := 0; s < n; s++ {
		k := u[verifrt.Choose("key", 2)]
		failNext = verifrt.Choose("fail", 2) == 1
		na, nm, nd := len(added), len(modified), len(deleted)
		switch verifrt.Choose("op", 4) {
		case 0:
			v := verifrt.U8("v")
			err := m.Add(&c12Item{id: c12ID(k), val: v})
			if idx(k) >= 0 {
				verifrt.Cover("add-dup")
				verifrt.Assert(err != nil, "OnChangeMap.Add of an existing id must fail")
				verifrt.Assert(len(added) == na, "OnChangeMap.Add: callback fired although nothing changed")
			} else {
				verifrt.Cover("add")
				mk, mv = append(mk, k), append(mv, v)
				if enabled {
					verifrt.Assert(len(added) == na+1 && added[na] == k, "OnChangeMap.Add: the added-callback does not mirror the change")
					verifrt.Assert(lastAll == len(mk), "OnChangeMap.Add: the changed-callback does not see the new contents")
					verifrt.Assert((err != nil) == failNext, "OnChangeMap.Add: callback error not propagated")
					if failNext {
						verifrt.Cover("callback-error")
					}
				} else {
					verifrt.Cover("disabled")
					verifrt.Assert(err == nil && len(added) == na, "OnChangeMap.Add: callback fired while callbacks are disabled")
				}
			}
		case 1:
			change := verifrt.Choose("change", 2) == 1
			nv := verifrt.U8("v")
			got, err := m.Modify(c12ID(k), func(it *c12Item) bool {
				if change {
					it.val = nv
				}

				return change
			})
			i := idx(k)
			if i < 0 {
				verifrt.Assert(err != nil, "OnChangeMap.Modify of a missing id must fail")
			} else {
				if change {
					mv[i] = nv
					verifrt.Cover("modify")
				}
				verifrt.Assert(got != nil && got.val == mv[i], "OnChangeMap.Modify returned a stale item")
				if got != nil {
					got.val++ // "returns a copy": writing to it must not reach the store (checked by the next Get/Modify)
				}
				if enabled && change {
					verifrt.Assert(len(modified) == nm+1 && modified[nm] == k, "OnChangeMap.Modify: the modified-callback does not mirror the change")
					verifrt.Assert((err != nil) == failNext, "OnChangeMap.Modify: callback error not propagated")
				} else {
					verifrt.Assert(err == nil && len(modified) == nm, "OnChangeMap.Modify: callback fired although disabled or unchanged")
				}
			}
		case 2:
			err := m.Delete(c12ID(k))
			i := idx(k)
			if i < 0 {
				verifrt.Assert(err != nil && len(deleted) == nd, "OnChangeMap.Delete of a missing id must fail without a callback")
			} else {
				mk = append(append([]uint8{}, mk[:i]...), mk[i+1:]...)
				mv = append(append([]uint8{}, mv[:i]...), mv[i+1:]...)
				verifrt.Cover("delete")
				if enabled {
					verifrt.Assert(len(deleted) == nd+1 && deleted[nd] == k, "OnChangeMap.Delete: the deleted-callback does not mirror the change")
					verifrt.Assert(lastAll == len(mk), "OnChangeMap.Delete: the changed-callback does not see the new contents")
					verifrt.Assert((err != nil) == failNext, "OnChangeMap.Delete: callback error not propagated")
				} else {
					verifrt.Assert(err == nil && len(deleted) == nd, "OnChangeMap.Delete: callback fired while callbacks are disabled")
				}
			}
		case 3:
			got, err := m.Get(c12ID(k))
			i := idx(k)
			verifrt.Assert((err == nil) == (i >= 0), "OnChangeMap.Get: presence differs from the model")
			if i >= 0 {
				verifrt.Assert(got.val == mv[i], "OnChangeMap.Get: value differs from the model")
				got.val++ // the returned item is a clone
			}
		}
		all := m.All()
		verifrt.Assert(len(all) == len(mk), "OnChangeMap.All: size differs from the model")
		for i := range mk {
			it, ok := all[mk[i]]
			verifrt.Assert(ok && it.val == mv[i], "OnChangeMap.All: contents differ from the model")
		}
	}
}
