//verif:pkg ds/queue
package queue

import "verifrt"

// Property C12 (Queue): bounded FIFO; Offer drops when full, ForceOffer evicts the oldest.
// IND: arbitrary representation state (DESIGN.md Appendix A.4), one operation.

func c12QueueState() (*Queue[uint8], []uint8) {
	capacity := 1 + verifrt.Choose("cap", verifrt.Param("maxcap", 3))
	q := New[uint8](capacity)
	q.read = verifrt.Int("read")
	q.size = verifrt.Int("size")
	verifrt.Assume(q.read >= 0 && q.read < capacity && q.size >= 0 && q.size <= capacity)
	q.write = (q.read + q.size) % capacity
	for i := range q.ringBuffer {
		q.ringBuffer[i] = verifrt.U8("e")
	}
	var abs []uint8
	for i := 0; i < q.size; i++ {
		abs = append(abs, q.ringBuffer[(q.read+i)%capacity])
	}

	return q, abs
}

func c12QueueCheck(q *Queue[uint8], want []uint8) {
	verifrt.Assert(q.read >= 0 && q.read < q.capacity && q.size >= 0 && q.size <= q.capacity &&
		q.write == (q.read+q.size)%q.capacity && len(q.ringBuffer) == q.capacity, "Queue: representation invariant broken")
	verifrt.Assert(q.Size() == len(want), "Queue: Size differs from the FIFO model")
	for i := 0; i < len(want) && i < q.size; i++ {
		verifrt.Assert(q.ringBuffer[(q.read+i)%q.capacity] == want[i], "Queue: contents differ from the FIFO model")
	}
}

//verif:h prop=C12 p.maxcap=3/4 cover=offer-ok,offer-full,force-evict,force-room,poll-ok,poll-empty
func H_C12_queue_step() {
	q, abs := c12QueueState()
	e := verifrt.U8("new")
	switch verifrt.Choose("op", 3) {
	case 0:
		ok := q.Offer(e)
		if len(abs) == q.capacity {
			verifrt.Cover("offer-full")
			verifrt.Assert(!ok, "Queue.Offer accepted an element although the queue is full")
		} else {
			verifrt.Cover("offer-ok")
			verifrt.Assert(ok, "Queue.Offer dropped an element although there is room")
			abs = append(abs, e)
		}
	case 1:
		rem, was := q.ForceOffer(e)
		if len(abs) == q.capacity {
			verifrt.Cover("force-evict")
			verifrt.Assert(was && rem == abs[0], "Queue.ForceOffer did not evict the oldest element")
			abs = append(abs[1:], e)
		} else {
			verifrt.Cover("force-room")
			verifrt.Assert(!was, "Queue.ForceOffer evicted although there was room")
			abs = append(abs, e)
		}
	case 2:
		v, ok := q.Poll()
		if len(abs) == 0 {
			verifrt.Cover("poll-empty")
			verifrt.Assert(!ok, "Queue.Poll returned an element from an empty queue")
		} else {
			verifrt.Cover("poll-ok")
			verifrt.Assert(ok && v == abs[0], "Queue.Poll did not return the oldest element")
			abs = abs[1:]
		}
	}
	c12QueueCheck(q, abs)
}

//verif:h prop=C12 p.ops=4/6 cover=hist
func H_C12_queue_hist() {
	capacity := 1 + verifrt.Choose("cap", 2)
	q := New[uint8](capacity)
	var abs []uint8
	n := verifrt.Param("ops", 4)
	for i := 0; i < n; i++ {
		e := verifrt.U8("e")
		switch verifrt.Choose("op", 3) {
		case 0:
			if q.Offer(e) {
				abs = append(abs, e)
			}
		case 1:
			if _, was := q.ForceOffer(e); was {
				abs = abs[1:]
			}
			abs = append(abs, e)
		case 2:
			v, ok := q.Poll()
			verifrt.Assert(ok == (len(abs) > 0), "Queue.Poll: success differs from the FIFO model")
			if ok && len(abs) > 0 {
				verifrt.Assert(v == abs[0], "Queue.Poll did not return the oldest element")
				abs = abs[1:]
			}
		}
		verifrt.Assert(len(abs) <= capacity && q.Size() == len(abs), "Queue: Size differs from the FIFO model")
	}
	verifrt.Cover("hist")
}
