//verif:pkg ds/priorityqueue
package priorityqueue

import (
	"sync"

	"verifrt"
)

// Property C12 (PriorityQueue / generalheap): pops in priority order; removal handles are idempotent.

type c12Prio uint8

func (p c12Prio) CompareTo(o c12Prio) int {
	switch {
	case p < o:
		return -1
	case p > o:
		return 1
	}

	return 0
}

type c12PQItem struct {
	id   int
	prio c12Prio
	live bool
}

//verif:h prop=C12 p.pushes=3/3 p.ops=2/3 cover=pop,popuntil,remove,remove-twice runs=2000000 timeout=900/900
func H_C12_priorityqueue() {
	pq := New[int, c12Prio]()
	var items []*c12PQItem
	var removers []func()
	nPush := 1 + verifrt.Choose("pushes", verifrt.Param("pushes", 3))
	for i := 0; i < nPush; i++ {
		p := c12Prio(verifrt.U8("prio"))
		removers = append(removers, pq.Push(i, p))
		items = append(items, &c12PQItem{id: i, prio: p, live: true})
	}
	liveCount := func() int {
		n := 0
		for _, it := range items {
			if it.live {
				n++
			}
		}

		return n
	}
	isMin := func(id int) bool {
		for _, it := range items {
			if it.live && it.prio < items[id].prio {
				return false
			}
		}

		return true
	}
	n := verifrt.Param("ops", 3)
	for s := 0; s < n; s++ {
		switch verifrt.Choose("op", 4) {
		case 0:
			pv, pok := pq.Peek()
			v, ok := pq.Pop()
			verifrt.Assert(ok == (liveCount() > 0) && pok == ok, "PriorityQueue.Pop/Peek: exists differs from the model")
			if ok {
				verifrt.Assert(pv == v, "PriorityQueue.Peek and Pop disagree")
				verifrt.Assert(v >= 0 && v < len(items) && items[v].live, "PriorityQueue.Pop returned an element that is not queued")
				verifrt.Assert(isMin(v), "PriorityQueue.Pop did not return an element of minimal priority")
				items[v].live = false
				verifrt.Cover("pop")
			}
		case 1:
			limit := c12Prio(verifrt.U8("limit"))
			got := pq.PopUntil(limit)
			for j, v := range got {
				verifrt.Assert(v >= 0 && v < len(items) && items[v].live && items[v].prio <= limit, "PriorityQueue.PopUntil returned an element above the limit or not queued")
				if j > 0 {
					verifrt.Assert(items[got[j-1]].prio <= items[v].prio, "PriorityQueue.PopUntil is not in priority order")
				}
				items[v].live = false
			}
			for _, it := range items {
				verifrt.Assert(!it.live || it.prio > limit, "PriorityQueue.PopUntil left an element at or below the limit")
			}
			verifrt.Cover("popuntil")
		case 2:
			k := verifrt.Choose("which", len(items))
			removers[k]()
			items[k].live = false
			verifrt.Cover("remove")
			if verifrt.Choose("twice", 2) == 1 {
				removers[k]() // idempotent
				verifrt.Cover("remove-twice")
			}
		case 3:
			p := c12Prio(verifrt.U8("prio"))
			id := len(items)
			removers = append(removers, pq.Push(id, p))
			items = append(items, &c12PQItem{id: id, prio: p, live: true})
		}
		verifrt.Assert(pq.Size() == liveCount() && pq.IsEmpty() == (liveCount() == 0), "PriorityQueue.Size differs from the model")
		// heap invariant and back-indices (DESIGN.md Appendix A.6)
		for j := range pq.heap {
			verifrt.Assert(pq.heap[j].Index() == j, "generalheap: element index does not match its position")
			if j > 0 {
				verifrt.Assert(!pq.heap.Less(j, (j-1)/2), "generalheap: heap order violated")
			}
		}
	}
	// drain: everything left comes out in priority order
	var last c12Prio
	first := true
	for _, v := range pq.PopAll() {
		verifrt.Assert(items[v].live, "PriorityQueue.PopAll returned an element that is not queued")
		verifrt.Assert(first || last <= items[v].prio, "PriorityQueue.PopAll is not in priority order")
		last, first = items[v].prio, false
		items[v].live = false
	}
	verifrt.Assert(liveCount() == 0, "PriorityQueue.PopAll left elements behind")
}

// H_C12_priorityqueue_conc: a removal handle racing with a second call of the same handle or with Pop, on a
// queue of three elements with symbolic priorities: afterwards exactly the elements that were removed/popped are
// gone (a handle acts on its own element only, whatever the interleaving).
//
//verif:h prop=C12 preempt=2/3 cover=handle-handle,handle-pop
func H_C12_priorityqueue_conc() {
	pq := New[int, c12Prio]()
	var removers [3]func()
	for i := 0; i < 3; i++ {
		removers[i] = pq.Push(i, c12Prio(verifrt.U8("prio")))
	}
	k := verifrt.Choose("which", 3)
	mode := verifrt.Choose("mode", 2)
	popped, pok := -1, false
	var wg sync.WaitGroup
	wg.Add(2)
	go func() {
		defer wg.Done()
		verifrt.MustFinish()
		removers[k]()
	}()
	go func() {
		defer wg.Done()
		verifrt.MustFinish()
		if mode == 0 {
			removers[k]()
		} else {
			popped, pok = pq.Pop()
		}
	}()
	verifrt.MustFinish()
	wg.Wait()
	gone := [3]bool{}
	gone[k] = true
	if mode == 0 {
		verifrt.Cover("handle-handle")
	} else {
		verifrt.Cover("handle-pop")
		verifrt.Assert(pok && popped >= 0 && popped < 3, "PriorityQueue.Pop on a queue with at least two elements returned nothing")
		gone[popped] = true
	}
	want := 0
	for i := range gone {
		if !gone[i] {
			want++
		}
	}
	verifrt.Assert(pq.Size() == want, "PriorityQueue: a removal handle racing with another call removed an element other than its own (or too few)")
	for _, v := range pq.PopAll() {
		verifrt.Assert(v >= 0 && v < 3 && !gone[v], "PriorityQueue: an element that was removed or popped is still queued")
	}
}
