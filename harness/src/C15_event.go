//verif:pkg runtime/event
package event

import (
	"sync"
	"sync/atomic"

	"verifrt"
)

// Property C15 (runtime events): each Trigger invokes every hook attached before the call began and not yet
// unhooked exactly once with that call's arguments (synchronous hooks in attachment order); LinkTo fires once
// per trigger of the current target; WithMaxTriggerCount(n) fires exactly min(n, triggers) times.

type c15Hook struct {
	h        *Hook[func(int)]
	calls    []int // arguments seen
	max      int   // 0 = unlimited
	live     bool
	attempts int // triggers that reached the hook (each counts against its limit)
}

//verif:h prop=C15 p.events=4/5 cover=hook,unhook,trigger,limited,unhook-in-callback runs=5000000 timeout=900/900
func H_C15_event_hist() {
	evMax := verifrt.Choose("eventMax", 3) // 0 = unlimited
	var opts []Option
	if evMax > 0 {
		opts = append(opts, WithMaxTriggerCount(uint64(evMax)))
	}
	ev := New1[int](opts...)
	var hooks []*c15Hook
	var order []int // global call log: hook indices in call order
	triggers := 0
	n := verifrt.Param("events", 4)
	for s := 0; s <= n; s++ {
		kind := 2 // every history ends with a Trigger
		if s < n {
			kind = verifrt.Choose("event", 4)
		}
		switch kind {
		case 0: // Hook (optionally limited, optionally unhooking itself inside the callback)
			verifrt.Assume(len(hooks) < 3)
			hk := &c15Hook{live: true, max: verifrt.Choose("hookMax", 3)}
			idx := len(hooks)
			selfUnhook := verifrt.Choose("selfUnhook", 2) == 1
			var hopts []Option
			if hk.max > 0 {
				hopts = append(hopts, WithMaxTriggerCount(uint64(hk.max)))
			}
			hk.h = ev.Hook(func(arg int) {
				hk.calls = append(hk.calls, arg)
				order = append(order, idx)
				if selfUnhook {
					hk.h.Unhook()
					hk.live = false
					verifrt.Cover("unhook-in-callback")
				}
			}, hopts...)
			hooks = append(hooks, hk)
			verifrt.Cover("hook")
		case 1: // Unhook
			verifrt.Assume(len(hooks) > 0)
			hk := hooks[verifrt.Choose("which", len(hooks))]
			hk.h.Unhook()
			hk.live = false
			verifrt.Cover("unhook")
		case 2, 3: // Trigger
			triggers++
			arg := 100 + triggers
			before := make([]int, len(hooks))
			var expect []int
			fires := evMax == 0 || triggers <= evMax
			for i, hk := range hooks {
				before[i] = len(hk.calls)
				if fires && hk.live {
					if hk.max == 0 || hk.attempts < hk.max {
						expect = append(expect, i)
					} else {
						verifrt.Cover("limited")
					}
					hk.attempts++
				}
			}
			orderBefore := len(order)
			ev.Trigger(arg)
			verifrt.Cover("trigger")
			got := order[orderBefore:]
			verifrt.Assert(len(got) == len(expect), "Trigger did not invoke exactly the attached, not yet unhooked and not exhausted hooks once each")
			for k := range got {
				if k < len(expect) {
					verifrt.Assert(got[k] == expect[k], "synchronous hooks were not invoked in attachment order")
				}
			}
			for i, hk := range hooks {
				for _, a := range hk.calls[before[i]:] {
					verifrt.Assert(a == arg, "a hook was invoked with another call's argument")
				}
			}
		}
	}
	if evMax > 0 {
		want := triggers
		if want > evMax {
			want = evMax
		}
		_ = want
		verifrt.Assert(ev.TriggerCount() == triggers, "event trigger count differs from the number of Trigger calls")
	}
}

// H_C15_event_link: an event linked with LinkTo fires exactly once per trigger of its current target and no
// longer for a former target.
//
//verif:h prop=C15 p.events=4/5 cover=link,relink,unlink,fired runs=5000000 timeout=900/900
func H_C15_event_link() {
	targets := [2]*Event1[int]{New1[int](), New1[int]()}
	linked := New1[int]()
	var got []int
	linked.Hook(func(a int) { got = append(got, a) })
	cur := -1
	n := verifrt.Param("events", 4)
	for s := 0; s < n; s++ {
		switch verifrt.Choose("event", 3) {
		case 0:
			t := verifrt.Choose("target", 2)
			if cur >= 0 {
				verifrt.Cover("relink")
			}
			linked.LinkTo(targets[t])
			cur = t
			verifrt.Cover("link")
		case 1:
			linked.LinkTo(nil)
			cur = -1
			verifrt.Cover("unlink")
		case 2:
			t := verifrt.Choose("target", 2)
			before := len(got)
			targets[t].Trigger(10*s + t)
			if t == cur {
				verifrt.Cover("fired")
				verifrt.Assert(len(got) == before+1 && got[before] == 10*s+t, "a linked event did not fire exactly once for a trigger of its current target")
			} else {
				verifrt.Assert(len(got) == before, "a linked event fired for a target it is not (or no longer) linked to")
			}
		}
	}
}

// H_C15_event_conc: concurrent Triggers against a limit fire exactly min(n, triggers) times; Trigger racing
// with Hook / Unhook calls a hook at most once per trigger and never after Unhook has returned.
//
//verif:h prop=C15 preempt=2/3 cover=limit,race runs=5000000 timeout=900/900
func H_C15_event_conc() {
	mode := verifrt.Choose("mode", 2)
	var wg sync.WaitGroup
	verifrt.MustFinish()
	if mode == 0 {
		limit := 1 + verifrt.Choose("limit", 2)
		onHook := verifrt.Choose("limitOnHook", 2) == 1
		var ev *Event1[int]
		var fired atomic.Int32
		if onHook {
			ev = New1[int]()
			ev.Hook(func(int) { fired.Add(1) }, WithMaxTriggerCount(uint64(limit)))
		} else {
			ev = New1[int](WithMaxTriggerCount(uint64(limit)))
			ev.Hook(func(int) { fired.Add(1) })
		}
		nTrig := 2 + verifrt.Choose("triggers", 2)
		for k := 0; k < nTrig; k++ {
			wg.Add(1)
			go func(k int) { defer wg.Done(); verifrt.MustFinish(); ev.Trigger(k) }(k)
		}
		wg.Wait()
		want := int32(limit)
		if int32(nTrig) < want {
			want = int32(nTrig)
		}
		verifrt.Cover("limit")
		verifrt.Assert(fired.Load() == want, "an event or hook limited by WithMaxTriggerCount(n) did not fire exactly min(n, triggers) times")

		return
	}
	ev := New1[int]()
	var calls atomic.Int32
	var unhookReturned, lateCall atomic.Bool
	h := ev.Hook(func(int) {
		if unhookReturned.Load() {
			lateCall.Store(true)
		}
		calls.Add(1)
	})
	var second atomic.Int32
	wg.Add(3)
	go func() { defer wg.Done(); verifrt.MustFinish(); ev.Trigger(1) }()
	go func() { defer wg.Done(); verifrt.MustFinish(); h.Unhook(); unhookReturned.Store(true) }()
	go func() { defer wg.Done(); verifrt.MustFinish(); ev.Hook(func(int) { second.Add(1) }) }()
	wg.Wait()
	verifrt.Cover("race")
	verifrt.Assert(calls.Load() <= 1 && second.Load() <= 1, "a hook was invoked more than once by one Trigger")
	before := second.Load()
	ev.Trigger(2)
	verifrt.Assert(calls.Load() <= 1, "a hook was invoked after it was unhooked")
	verifrt.Assert(second.Load() == before+1, "a hook attached before Trigger began was not invoked")
}
