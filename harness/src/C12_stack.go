//verif:pkg ds/stack
package stack

import "verifrt"

// Property C12 (Stack): LIFO, both flavours.

//verif:h prop=C12 p.ops=4/6 cover=push,pop,pop-empty,clear
func H_C12_stack() {
	s := New[uint8](verifrt.Choose("threadsafe", 2) == 1)
	var abs []uint8
	n := verifrt.Param("ops", 4)
	for i := 0; i < n; i++ {
		switch verifrt.Choose("op", 4) {
		case 0:
			e := verifrt.U8("e")
			s.Push(e)
			abs = append(abs, e)
			verifrt.Cover("push")
		case 1:
			v, ok := s.Pop()
			if len(abs) == 0 {
				verifrt.Cover("pop-empty")
				verifrt.Assert(!ok, "Stack.Pop returned an element from an empty stack")
			} else {
				verifrt.Cover("pop")
				verifrt.Assert(ok && v == abs[len(abs)-1], "Stack.Pop did not return the most recently pushed element")
				abs = abs[:len(abs)-1]
			}
		case 2:
			v, ok := s.Peek()
			verifrt.Assert(ok == (len(abs) > 0) && (!ok || v == abs[len(abs)-1]), "Stack.Peek differs from the LIFO model")
		case 3:
			s.Clear()
			abs = nil
			verifrt.Cover("clear")
		}
		verifrt.Assert(s.Size() == len(abs) && s.IsEmpty() == (len(abs) == 0), "Stack: Size/IsEmpty differ from the LIFO model")
	}
}
