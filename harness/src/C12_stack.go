//verif:pkg ds/stack
package stack

import (
	"sync"

	"verifrt"
)

// Property C12 (Stack): LIFO, both flavours.

//verif:h prop=C12 p.ops=4/6 cover=push,pop,pop-empty,clear
func H_C12_stack() {
	s := New[uint8](verifrt.Choose("threadsafe", 2) == 1)
	var abs []uint8
	n := verifrt.Param("ops", 4)
	for i := 0; i < n; i++ {
		switch verifrt.Choose("op", 4) {
		case 0:
			e := verifrt.U8("e")
			s.Push(e)
			abs = append(abs, e)
			verifrt.Cover("push")
		case 1:
			v, ok := s.Pop()
			if len(abs) == 0 {
				verifrt.Cover("pop-empty")
				verifrt.Assert(!ok, "Stack.Pop returned an element from an empty stack")
			} else {
				verifrt.Cover("pop")
				verifrt.Assert(ok && v == abs[len(abs)-1], "Stack.Pop did not return the most recently pushed element")
				abs = abs[:len(abs)-1]
			}
		case 2:
			v, ok := s.Peek()
			verifrt.Assert(ok == (len(abs) > 0) && (!ok || v == abs[len(abs)-1]), "Stack.Peek differs from the LIFO model")
		case 3:
			s.Clear()
			abs = nil
			verifrt.Cover("clear")
		}
		verifrt.Assert(s.Size() == len(abs) && s.IsEmpty() == (len(abs) == 0), "Stack: Size/IsEmpty differ from the LIFO model")
	}
}

// H_C12_stack_conc: the thread-safe stack under two concurrent calls (Pop/Pop, Pop/Push, Pop/Peek, Push/Push,
// Pop/Clear) on a stack of two symbolic elements: the outcome equals one of the two serial orders (every pushed
// element is popped at most once; LIFO among what is left), all schedules with a bounded number of pre-emptions.
//
//verif:h prop=C12 preempt=2/3 cover=pop-pop,pop-push,pop-peek,push-push,pop-clear
func H_C12_stack_conc() {
	s := New[uint8](true)
	a, b := verifrt.U8("a"), verifrt.U8("b")
	s.Push(a)
	s.Push(b)
	mode := verifrt.Choose("mode", 5)
	c := verifrt.U8("c")
	var v [2]uint8
	var ok [2]bool
	var wg sync.WaitGroup
	wg.Add(2)
	go func() {
		defer wg.Done()
		verifrt.MustFinish()
		if mode == 3 {
			s.Push(a)
		} else {
			v[0], ok[0] = s.Pop()
		}
	}()
	go func() {
		defer wg.Done()
		verifrt.MustFinish()
		switch mode {
		case 0:
			v[1], ok[1] = s.Pop()
		case 1, 3:
			s.Push(c)
		case 2:
			v[1], ok[1] = s.Peek()
		case 4:
			s.Clear()
		}
	}()
	verifrt.MustFinish()
	wg.Wait()
	switch mode {
	case 0:
		verifrt.Cover("pop-pop")
		verifrt.Assert(ok[0] && ok[1] && ((v[0] == b && v[1] == a) || (v[0] == a && v[1] == b)), "Stack: two concurrent Pops did not return the two elements once each")
		verifrt.Assert(s.Size() == 0, "Stack: Size/IsEmpty differ from the LIFO model")
	case 1:
		verifrt.Cover("pop-push")
		// Pop first: returns b, stack a,c; Push first: Pop returns c, stack a,b
		verifrt.Assert(ok[0] && s.Size() == 2, "Stack: Size/IsEmpty differ from the LIFO model")
		top, _ := s.Pop()
		verifrt.Assert((v[0] == b && top == c) || (v[0] == c && top == b), "Stack.Pop did not return the most recently pushed element")
		bottom, _ := s.Pop()
		verifrt.Assert(bottom == a, "Stack.Pop did not return the most recently pushed element")
	case 2:
		verifrt.Cover("pop-peek")
		verifrt.Assert(ok[0] && v[0] == b && ok[1] && (v[1] == b || v[1] == a) && s.Size() == 1, "Stack.Peek differs from the LIFO model")
	case 3:
		verifrt.Cover("push-push")
		verifrt.Assert(s.Size() == 4, "Stack: Size/IsEmpty differ from the LIFO model")
		x, _ := s.Pop()
		y, _ := s.Pop()
		verifrt.Assert((x == a && y == c) || (x == c && y == a), "Stack: two concurrent Pushes were not both stored")
	case 4:
		verifrt.Cover("pop-clear")
		verifrt.Assert(s.Size() == 0 && (!ok[0] || v[0] == b), "Stack: Size/IsEmpty differ from the LIFO model")
	}
}
