//verif:pkg kvstore
package kvstore

import (
	"encoding/binary"
	"sync"

	"verifrt"

	"github.com/iotaledger/hive.go/ierrors"
)

// Property C07: Sequence numbers are never reused across crashes and restarts.

// c07Store is a KVStore stub with exactly one cell. The crashAt-th store operation never happens: the owning
// process "stops" there (modelled as a panic that the harness recovers; the Sequence object is then abandoned).
type c07Store struct {
	has     bool
	val     [8]byte
	ops     int
	crashAt int
	failAt  int // the failAt-th store operation returns an error instead of taking effect (-1: never)
	failed  bool
}

var errC07Store = ierrors.New("injected store failure")

func (c *c07Store) fails() bool {
	if c.failAt >= 0 && c.ops-1 == c.failAt {
		c.failed = true

		return true
	}

	return false
}

type c07Crash struct{}

func (c *c07Store) tick() {
	if c.ops == c.crashAt {
		panic(c07Crash{})
	}
	c.ops++
}

func (c *c07Store) Get(Key) (Value, error) {
	c.tick()
	if c.fails() {
		return nil, errC07Store
	}
	if !c.has {
		return nil, ErrKeyNotFound
	}

	return append([]byte(nil), c.val[:]...), nil
}

func (c *c07Store) Set(_ Key, v Value) error {
	c.tick()
	if c.fails() {
		return errC07Store
	}
	copy(c.val[:], v)
	c.has = true

	return nil
}

func (c *c07Store) mark() uint64 { return binary.BigEndian.Uint64(c.val[:]) }

func (c *c07Store) WithRealm(Realm) (KVStore, error)         { panic("unused") }
func (c *c07Store) WithExtendedRealm(Realm) (KVStore, error) { panic("unused") }
func (c *c07Store) Realm() Realm                             { panic("unused") }
func (c *c07Store) Iterate(KeyPrefix, IteratorKeyValueConsumerFunc, ...IterDirection) error {
	panic("unused")
}
func (c *c07Store) IterateKeys(KeyPrefix, IteratorKeyConsumerFunc, ...IterDirection) error {
	panic("unused")
}
func (c *c07Store) Clear() error                       { panic("unused") }
func (c *c07Store) Has(Key) (bool, error)              { panic("unused") }
func (c *c07Store) Delete(Key) error                   { panic("unused") }
func (c *c07Store) DeletePrefix(KeyPrefix) error       { panic("unused") }
func (c *c07Store) Flush() error                       { panic("unused") }
func (c *c07Store) Close() error                       { panic("unused") }
func (c *c07Store) Batched() (BatchedMutations, error) { panic("unused") }

// c07Inv is the representation invariant of a Sequence object that has talked to the store (Appendix A.1,
// widened to the states left behind by a failed store write: next may run ahead of reserved, never beyond S).
func c07Inv(H, S uint64, has bool, next, reserved, interval uint64) bool {
	return verifrt.And(verifrt.And(has, verifrt.And(H <= next, next <= S)),
		verifrt.And(reserved <= S, verifrt.Or(next >= reserved, reserved-next <= interval)))
}

// H_C07_step: one inductive step from an arbitrary state satisfying the representation invariant
// (DESIGN.md Appendix A.1): store mark S, ghost H = 1 + largest number ever handed out, a live or fresh
// Sequence object; one of Next / Release with a symbolic crash position.
//
//verif:h prop=C07 cover=next-ok,next-lease,next-update,release-leased,release-fresh,crash,store-error
func H_C07_step() {
	S, H := verifrt.U64("S"), verifrt.U64("H")
	has := verifrt.Bool("has")
	verifrt.Assume(S < 1<<63)
	verifrt.Assume(has || H == 0)
	verifrt.Assume(!has || H <= S)
	st := &c07Store{has: has, crashAt: verifrt.Choose("crashAt", 3) - 1, failAt: -1} // -1: no crash; 0/1: before 1st/2nd store op
	if st.crashAt < 0 {
		st.failAt = verifrt.Choose("failAt", 3) - 1 // a store operation that returns an error instead
	}
	binary.BigEndian.PutUint64(st.val[:], S)
	interval := verifrt.U64("interval")
	verifrt.Assume(interval >= 1 && interval < 1<<32)
	seq, err := NewSequence(st, []byte("k"), interval)
	verifrt.Assert(err == nil && seq != nil, "NewSequence succeeds")
	live := verifrt.Bool("live")
	if live {
		// an object that talked to the store earlier in its life (possibly unsuccessfully)
		seq.next, seq.reserved = verifrt.U64("next"), verifrt.U64("reserved")
		verifrt.Assume(seq.next != 0 || seq.reserved != 0)
		verifrt.Assume(c07Inv(H, S, has, seq.next, seq.reserved, interval))
	}
	S0 := S
	if !has {
		S0 = 0
	}
	crashed := false
	func() {
		defer func() {
			if r := recover(); r != nil {
				if _, ok := r.(c07Crash); !ok {
					panic(r)
				}
				crashed = true
			}
		}()
		switch verifrt.Choose("op", 2) {
		case 0:
			hadLease := seq.next < seq.reserved
			v, err := seq.Next()
			if st.failed {
				verifrt.Cover("store-error")
				verifrt.Assert(err != nil, "Next swallowed a store error")

				break
			}
			verifrt.Assert(err == nil, "Next does not fail on a working store")
			verifrt.Cover("next-ok")
			if hadLease {
				verifrt.Cover("next-lease")
			} else {
				verifrt.Cover("next-update")
			}
			verifrt.Assert(v >= H, "Next returned a number that was handed out before (or below the high-water mark)")
			H = v + 1
		case 1:
			n := seq.next
			leased := live && seq.reserved != 0
			err := seq.Release()
			if st.failed {
				verifrt.Cover("store-error")
				verifrt.Assert(err != nil, "Release swallowed a store error")

				break
			}
			verifrt.Assert(err == nil, "Release does not fail on a working store")
			if leased {
				verifrt.Cover("release-leased")
				verifrt.Assert(st.has && st.mark() == n, "clean Release stores exactly the next unused number (wastes none)")
			} else {
				verifrt.Cover("release-fresh")
				verifrt.Assert(st.has == has && (!has || st.mark() == S), "Release on an object that never leased must not move the stored mark")
			}
		}
	}()
	S2 := st.mark()
	verifrt.Assert(!st.has || H <= S2, "stored mark covers every number handed out")
	verifrt.Assert(st.has || H == 0, "store empty although numbers were handed out")
	if crashed {
		verifrt.Cover("crash")
		verifrt.Assert(!st.has || S2 <= S0+interval, "a crash moves the stored mark by at most one interval")
	} else {
		// the object satisfies the invariant again
		fresh := seq.reserved == 0 && seq.next == 0
		liveOK := c07Inv(H, S2, st.has, seq.next, seq.reserved, interval)
		verifrt.Assert(fresh || liveOK, "Sequence object violates its representation invariant after the step")
	}
}

// H_C07_hist: every history of up to p.events events (Next, Release, restart with an arbitrary interval,
// crash inside Next at an arbitrary store operation) from the empty store through the public API.
//
//verif:h prop=C07 p.events=4/5 cover=restart,crash,release,two-numbers
func H_C07_hist() {
	st := &c07Store{crashAt: -1, failAt: -1}
	newSeq := func() *Sequence {
		iv := verifrt.U64("interval")
		verifrt.Assume(iv >= 1 && iv < 1<<32)
		s, _ := NewSequence(st, []byte("k"), iv)

		return s
	}
	seq := newSeq()
	var last uint64
	got := false
	n := verifrt.Param("events", 4)
	for e := 0; e < n; e++ {
		switch verifrt.Choose("event", 4) {
		case 0: // Next
			v, err := seq.Next()
			verifrt.Assert(err == nil, "Next does not fail on a working store")
			if got {
				verifrt.Cover("two-numbers")
				verifrt.Assert(v > last, "history: Next returned a number that is not larger than an earlier one")
			}
			last, got = v, true
		case 1: // Release
			verifrt.Cover("release")
			verifrt.Assert(seq.Release() == nil, "Release does not fail on a working store")
		case 2: // clean restart (object dropped without Release)
			verifrt.Cover("restart")
			seq = newSeq()
		case 3: // crash inside Next at the k-th store operation, then restart
			st.ops = 0
			st.crashAt = verifrt.Choose("crashAt", 2)
			func() {
				defer func() {
					if r := recover(); r != nil {
						if _, ok := r.(c07Crash); !ok {
							panic(r)
						}
						verifrt.Cover("crash")
					}
				}()
				v, err := seq.Next()
				// Next served from the lease without touching the store: no crash happened
				verifrt.Assert(err == nil, "Next does not fail on a working store")
				if got {
					verifrt.Assert(v > last, "history: Next returned a number that is not larger than an earlier one")
				}
				last, got = v, true
			}()
			st.crashAt = -1
			seq = newSeq()
		}
	}
}

// H_C07_conc: two goroutines call Next on one Sequence; the numbers are distinct.
//
//verif:h prop=C07 preempt=2/3 cover=both
func H_C07_conc() {
	st := &c07Store{crashAt: -1, failAt: -1}
	seq, _ := NewSequence(st, []byte("k"), uint64(1+verifrt.Choose("interval", 2)))
	var a, b uint64
	var wg sync.WaitGroup
	wg.Add(2)
	go func() { defer wg.Done(); a, _ = seq.Next() }()
	go func() { defer wg.Done(); b, _ = seq.Next() }()
	wg.Wait()
	verifrt.Cover("both")
	verifrt.Assert(a != b, "concurrent Next calls returned the same number")
	c, _ := seq.Next()
	verifrt.Assert(c > a && c > b, "a later Next returned a number not above the concurrent ones")
}

// H_C07_release_conc: Release racing with Next on one Sequence: whatever the interleaving, no number is handed
// out twice, also not by a Next that follows, and not after a restart.
//
//verif:h prop=C07 preempt=2/3 cover=done
func H_C07_release_conc() {
	st := &c07Store{crashAt: -1, failAt: -1}
	seq, _ := NewSequence(st, []byte("k"), uint64(2+verifrt.Choose("interval", 2)))
	first, _ := seq.Next() // a lease exists
	var a uint64
	var wg sync.WaitGroup
	wg.Add(2)
	go func() { defer wg.Done(); a, _ = seq.Next() }()
	go func() { defer wg.Done(); _ = seq.Release() }()
	wg.Wait()
	b, _ := seq.Next()
	verifrt.Cover("done")
	verifrt.Assert(a > first && b > a, "Release racing with Next made the sequence hand out a number twice")
	seq2, _ := NewSequence(st, []byte("k"), 2)
	c, _ := seq2.Next()
	verifrt.Assert(c > b, "after Release raced with Next, a restarted sequence re-used a number")
}
