//verif:pkg ds
package ds

import (
	stdlist "container/list"

	"verifrt"
)

// Property C10: ds.List behaves exactly like container/list (the twin, interpreted from the std source).

type c10Pair struct {
	d ListElement[uint8]
	s *stdlist.Element
}

type c10World struct {
	d     [2]List[uint8]
	s     [2]*stdlist.List
	pairs []c10Pair // every handle ever created (live, removed, stale): compared after every operation
	pool  []c10Pair // handles that may be passed as arguments (live, removed, foreign)
}

// inner returns the lock-free list inside either flavour.
func c10Inner(l List[uint8]) *list[uint8] {
	switch l := l.(type) {
	case *list[uint8]:
		return l
	case *threadSafeList[uint8]:
		return l.list
	}
	panic("unknown list flavour")
}

// dropStale removes the handles of list A from the argument pool: Init leaves them claiming membership, and
// passing them to a mutator corrupts container/list and ds.List alike (not a behaviour the property covers).
func (w *c10World) dropStale() {
	a := c10Inner(w.d[0])
	var keep []c10Pair
	for _, p := range w.pool {
		if p.d.(*listElement[uint8]).list.Load() != a {
			keep = append(keep, p)
		}
	}
	w.pool = keep
}

func (w *c10World) twin(e ListElement[uint8]) *stdlist.Element {
	for _, p := range w.pairs {
		if p.d == e {
			return p.s
		}
	}

	return nil
}

func (w *c10World) add(d ListElement[uint8], s *stdlist.Element) {
	verifrt.Assert((d == nil) == (s == nil), "a call returned a handle where container/list returns nil (or the reverse)")
	if d != nil {
		w.pairs = append(w.pairs, c10Pair{d, s})
		w.pool = append(w.pool, c10Pair{d, s})
	}
}

// compare checks that both implementations are observationally equal.
func (w *c10World) compare(what string) {
	for li := 0; li < 2; li++ {
		d, s := w.d[li], w.s[li]
		verifrt.Assert(d.Len() == s.Len(), what+": Len differs from container/list")
		// forwards
		de, se := d.Front(), s.Front()
		n := 0
		for de != nil && se != nil && n < 12 {
			verifrt.Assert(w.twin(de) == se, what+": forward order differs from container/list")
			verifrt.Assert(de.Value() == se.Value.(uint8), what+": Value differs from container/list")
			de, se = de.Next(), se.Next()
			n++
		}
		verifrt.Assert(de == nil && se == nil, what+": forward traversal has a different length than container/list")
		// backwards
		de, se = d.Back(), s.Back()
		n = 0
		for de != nil && se != nil && n < 12 {
			verifrt.Assert(w.twin(de) == se, what+": backward order differs from container/list")
			de, se = de.Prev(), se.Prev()
			n++
		}
		verifrt.Assert(de == nil && se == nil, what+": backward traversal has a different length than container/list")
	}
	// every handle ever created: Prev / Next / Value agree
	for _, p := range w.pairs {
		dn, sn := p.d.Next(), p.s.Next()
		verifrt.Assert((dn == nil) == (sn == nil) && (dn == nil || w.twin(dn) == sn), what+": Next of a handle differs from container/list")
		dp, sp := p.d.Prev(), p.s.Prev()
		verifrt.Assert((dp == nil) == (sp == nil) && (dp == nil || w.twin(dp) == sp), what+": Prev of a handle differs from container/list")
		if p.s.Value != nil {
			verifrt.Assert(p.d.Value() == p.s.Value.(uint8), what+": Value of a handle differs from container/list")
		}
	}
}

func c10Setup(lockFree bool) *c10World {
	w := &c10World{}
	for li := 0; li < 2; li++ {
		w.d[li] = NewList[uint8](lockFree)
		w.s[li] = stdlist.New()
	}
	nA := verifrt.Choose("lenA", verifrt.Param("maxA", 3)+1)
	nB := verifrt.Choose("lenB", verifrt.Param("maxB", 1)+1)
	for i := 0; i < nA; i++ {
		v := verifrt.U8("a")
		w.add(w.d[0].PushBack(v), w.s[0].PushBack(v))
	}
	for i := 0; i < nB; i++ {
		v := verifrt.U8("b")
		w.add(w.d[1].PushBack(v), w.s[1].PushBack(v))
	}
	switch verifrt.Choose("pre", 3) {
	case 1: // a removed handle
		if nA > 0 {
			k := verifrt.Choose("removed", nA)
			dv := w.d[0].Remove(w.pairs[k].d)
			sv := w.s[0].Remove(w.pairs[k].s)
			verifrt.Assert(dv == sv.(uint8), "Remove returned a value different from container/list")
		}
	case 2: // Init with elements present, then refill
		w.dropStale()
		w.d[0].Init()
		w.s[0].Init()
		v := verifrt.U8("a")
		w.add(w.d[0].PushBack(v), w.s[0].PushBack(v))
	}
	w.compare("setup")

	return w
}

func (w *c10World) step() (name string) {
	h := func(name string) c10Pair {
		verifrt.Assume(len(w.pool) > 0)

		return w.pool[verifrt.Choose(name, len(w.pool))]
	}
	switch verifrt.Choose("op", 12) {
	case 0:
		name = "PushFront"
		v := verifrt.U8("v")
		w.add(w.d[0].PushFront(v), w.s[0].PushFront(v))
		verifrt.Cover("push")
	case 1:
		name = "PushBack"
		v := verifrt.U8("v")
		w.add(w.d[0].PushBack(v), w.s[0].PushBack(v))
	case 2:
		name = "Remove"
		p := h("h")
		dv := w.d[0].Remove(p.d)
		sv := w.s[0].Remove(p.s)
		if sv != nil {
			verifrt.Assert(dv == sv.(uint8), "Remove returned a value different from container/list")
		}
		verifrt.Cover("remove")
	case 3:
		name = "InsertBefore"
		p, v := h("h"), verifrt.U8("v")
		w.add(w.d[0].InsertBefore(v, p.d), w.s[0].InsertBefore(v, p.s))
		verifrt.Cover("insert")
	case 4:
		name = "InsertAfter"
		p, v := h("h"), verifrt.U8("v")
		w.add(w.d[0].InsertAfter(v, p.d), w.s[0].InsertAfter(v, p.s))
	case 5:
		name = "MoveToFront"
		p := h("h")
		w.d[0].MoveToFront(p.d)
		w.s[0].MoveToFront(p.s)
		verifrt.Cover("move")
	case 6:
		name = "MoveToBack"
		p := h("h")
		w.d[0].MoveToBack(p.d)
		w.s[0].MoveToBack(p.s)
	case 7:
		name = "MoveBefore"
		p, q := h("h"), h("mark")
		w.d[0].MoveBefore(p.d, q.d)
		w.s[0].MoveBefore(p.s, q.s)
		verifrt.Cover("moverel")
	case 8:
		name = "MoveAfter"
		p, q := h("h"), h("mark")
		w.d[0].MoveAfter(p.d, q.d)
		w.s[0].MoveAfter(p.s, q.s)
	case 9:
		name = "PushBackList"
		o := verifrt.Choose("other", 2) // the list itself or the other list
		w.d[0].PushBackList(w.d[o])
		w.s[0].PushBackList(w.s[o])
		w.adopt()
		verifrt.Cover("pushlist")
	case 10:
		name = "PushFrontList"
		o := verifrt.Choose("other", 2)
		w.d[0].PushFrontList(w.d[o])
		w.s[0].PushFrontList(w.s[o])
		w.adopt()
	case 11:
		name = "Init"
		w.dropStale()
		w.d[0].Init()
		w.s[0].Init()
		verifrt.Cover("init")
	}

	return name
}

// adopt pairs up the handles created by a whole-list push (walk both lists in parallel).
func (w *c10World) adopt() {
	de, se := w.d[0].Front(), w.s[0].Front()
	for n := 0; de != nil && se != nil && n < 12; n++ {
		if w.twin(de) == nil {
			w.pairs = append(w.pairs, c10Pair{de, se})
			w.pool = append(w.pool, c10Pair{de, se})
		}
		de, se = de.Next(), se.Next()
	}
}

func c10Run(lockFree bool) {
	w := c10Setup(lockFree)
	n := verifrt.Param("ops", 1)
	for i := 0; i < n; i++ {
		name := w.step()
		w.compare(name)
	}
}

//verif:h prop=C10 p.maxA=2/3 p.maxB=1/2 p.ops=2/2 cover=push,remove,insert,move,moverel,pushlist,init runs=3000000 timeout=900/900
func H_C10_lockfree() { c10Run(true) }

//verif:h prop=C10 p.maxA=2/3 p.maxB=1/2 p.ops=2/2 cover=push,remove,insert,move,moverel,pushlist,init runs=3000000 timeout=900/900
func H_C10_threadsafe() { c10Run(false) }
