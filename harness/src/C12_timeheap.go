//verif:pkg ds/timeheap
package timeheap

import (
	"time"

	"verifrt"
)

// Property C12 (TimeHeap): reports the windowed sum of what was added and not cleared.
// The clock is symbolic (non-decreasing instants); counts are concrete because the result is a float.

//verif:h prop=C12 p.ops=3/4 cover=add,clear,average,expired
func H_C12_timeheap() {
	h := NewTimeHeap()
	n := verifrt.Param("ops", 3)
	for s := 0; s < n; s++ {
		switch verifrt.Choose("op", 3) {
		case 0:
			c := uint64(1 + verifrt.Choose("count", 2)*10)
			h.Add(c)
			verifrt.Cover("add")
		case 1:
			h.Clear()
			verifrt.Cover("clear")
		case 2:
			w := time.Duration(1+verifrt.Choose("window", 2)) * time.Second
			before := len(h.heap)
			avg := h.AveragePerSecond(w)
			verifrt.Cover("average")
			if len(h.heap) < before {
				verifrt.Cover("expired")
			}
			var sum uint64
			for _, e := range h.heap {
				sum += e.count
			}
			verifrt.Assert(avg == float32(sum)/float32(w.Seconds()), "TimeHeap.AveragePerSecond is not (sum of the entries inside the window and not cleared) / window")
		}
		// running total == sum of the entries still held (cleared and expired ones excluded)
		var sum uint64
		for _, e := range h.heap {
			sum += e.count
		}
		verifrt.Assert(h.total == sum, "TimeHeap: running total differs from the sum of the entries that were added and not cleared/expired")
		// representation invariant: the oldest entry is at the root (what the expiry loop of AveragePerSecond relies on)
		for j := 1; j < len(h.heap); j++ {
			verifrt.Assert(!h.heap.Less(j, (j-1)/2), "TimeHeap: heap order violated (an entry is older than its parent, so expiry can miss it)")
		}
	}
}

// H_C12_timeheap_window: an entry older than the window is not counted, a younger one is.
//
//verif:h prop=C12 cover=old,young
func H_C12_timeheap_window() {
	h := NewTimeHeap()
	h.Add(5)
	t0 := h.heap[0].timestamp
	w := 2 * time.Second
	avg := h.AveragePerSecond(w)
	now := time.Now()
	if now.Sub(t0) < w {
		// the examination happened before `now`, so it also saw the entry inside the window
		verifrt.Cover("young")
		verifrt.Assert(avg == float32(5)/float32(w.Seconds()), "TimeHeap dropped an entry that is still inside the window")
	}
	if len(h.heap) == 0 {
		verifrt.Cover("old")
		verifrt.Assert(avg == 0, "TimeHeap counted an entry that it dropped as outside the window")
		verifrt.Assert(time.Now().Sub(t0) >= w, "TimeHeap dropped an entry although the window had not elapsed")
	}
}
