//verif:pkg ds/shrinkingmap
package shrinkingmap

import (
	"sync"

	"verifrt"
)

// Property C12 (ShrinkingMap): a plain map whose shrinking is unobservable.

type c12SM struct {
	k, v []uint8
}

func (m *c12SM) idx(k uint8) int {
	for i := range m.k {
		if m.k[i] == k {
			return i
		}
	}

	return -1
}

func (m *c12SM) set(k, v uint8) bool {
	if i := m.idx(k); i >= 0 {
		m.v[i] = v

		return false
	}
	m.k, m.v = append(m.k, k), append(m.v, v)

	return true
}

func (m *c12SM) del(k uint8) (uint8, bool) {
	i := m.idx(k)
	if i < 0 {
		return 0, false
	}
	v := m.v[i]
	m.k = append(append([]uint8{}, m.k[:i]...), m.k[i+1:]...)
	m.v = append(append([]uint8{}, m.v[:i]...), m.v[i+1:]...)

	return v, true
}

//verif:h prop=C12 p.ops=3/4 cover=set,delete,shrunk,pop,getorcreate,compute runs=2000000 timeout=900/900
func H_C12_shrinkingmap() {
	// thresholds chosen so that shrinking happens early
	var opts []Option
	switch verifrt.Choose("opts", 3) {
	case 0:
		opts = []Option{WithShrinkingThresholdCount(1), WithShrinkingThresholdRatio(0)}
	case 1:
		opts = []Option{WithShrinkingThresholdCount(0), WithShrinkingThresholdRatio(0.5)}
	case 2:
		opts = []Option{WithShrinkingThresholdCount(2), WithShrinkingThresholdRatio(1.0)}
	}
	sm := New[uint8, uint8](opts...)
	m := &c12SM{}
	u := [3]uint8{verifrt.U8("k0"), verifrt.U8("k1"), verifrt.U8("k2")}
	n := verifrt.Param("ops", 4)
	for i := 0; i < n; i++ {
		k := u[verifrt.Choose("key", 3)]
		switch verifrt.Choose("op", 7) {
		case 0:
			v := verifrt.U8("v")
			verifrt.Assert(sm.Set(k, v) == m.set(k, v), "ShrinkingMap.Set: wasCreated differs from a plain map")
			verifrt.Cover("set")
		case 1:
			before := sm.deletedKeys
			d := sm.Delete(k)
			_, md := m.del(k)
			verifrt.Assert(d == md, "ShrinkingMap.Delete: result differs from a plain map")
			if md {
				verifrt.Cover("delete")
				if sm.deletedKeys <= before {
					verifrt.Cover("shrunk")
				}
			}
		case 2:
			v, d := sm.DeleteAndReturn(k)
			mv, md := m.del(k)
			verifrt.Assert(d == md && (!md || v == mv), "ShrinkingMap.DeleteAndReturn differs from a plain map")
		case 3:
			pk, pv, ok := sm.Pop()
			verifrt.Assert(ok == (len(m.k) > 0), "ShrinkingMap.Pop: exists differs from a plain map")
			if ok {
				mv, md := m.del(pk)
				verifrt.Assert(md && mv == pv, "ShrinkingMap.Pop returned an entry that is not in the map")
				verifrt.Cover("pop")
			}
		case 4:
			d := verifrt.U8("v")
			v, created := sm.GetOrCreate(k, func() uint8 { return d })
			if i := m.idx(k); i >= 0 {
				verifrt.Assert(!created && v == m.v[i], "ShrinkingMap.GetOrCreate differs from a plain map (existing key)")
			} else {
				verifrt.Assert(created && v == d, "ShrinkingMap.GetOrCreate differs from a plain map (new key)")
				m.set(k, d)
			}
			verifrt.Cover("getorcreate")
		case 5:
			r := sm.Compute(k, func(cur uint8, exists bool) uint8 {
				i := m.idx(k)
				verifrt.Assert(exists == (i >= 0) && (i < 0 || cur == m.v[i]), "ShrinkingMap.Compute: callback sees a different value than a plain map")

				return cur + 1
			})
			if i := m.idx(k); i >= 0 {
				m.v[i]++
				verifrt.Assert(r == m.v[i], "ShrinkingMap.Compute: result differs from a plain map")
			} else {
				m.set(k, 1)
				verifrt.Assert(r == 1, "ShrinkingMap.Compute: result differs from a plain map")
			}
			verifrt.Cover("compute")
		case 6:
			sm.Clear()
			m = &c12SM{}
		}
		// observational equivalence
		verifrt.Assert(sm.Size() == len(m.k) && sm.IsEmpty() == (len(m.k) == 0), "ShrinkingMap.Size differs from a plain map")
		for j := range m.k {
			v, ok := sm.Get(m.k[j])
			verifrt.Assert(ok && v == m.v[j] && sm.Has(m.k[j]), "ShrinkingMap.Get differs from a plain map")
		}
		seen := 0
		sm.ForEach(func(k, v uint8) bool {
			j := m.idx(k)
			verifrt.Assert(j >= 0 && m.v[j] == v, "ShrinkingMap.ForEach reports an entry that is not in the map")
			seen++

			return true
		})
		verifrt.Assert(seen == len(m.k) && len(sm.Keys()) == len(m.k) && len(sm.Values()) == len(m.k) && len(sm.AsMap()) == len(m.k), "ShrinkingMap: enumeration size differs from a plain map")
	}
}

// H_C12_shrinkingmap_conc: the map is documented as thread-safe; two concurrent GetOrCreate calls for one
// absent key create it exactly once and both see the same value.
//
//verif:h prop=C12 preempt=2/3 cover=done
func H_C12_shrinkingmap_conc() {
	sm := New[uint8, int]()
	var wg sync.WaitGroup
	var v [2]int
	var created [2]bool
	wg.Add(2)
	for t := 0; t < 2; t++ {
		go func(t int) {
			defer wg.Done()
			verifrt.MustFinish()
			v[t], created[t] = sm.GetOrCreate(1, func() int { return 10 + t })
		}(t)
	}
	wg.Wait()
	verifrt.Cover("done")
	verifrt.Assert(created[0] != created[1], "two concurrent GetOrCreate calls for one key both (or neither) report creating it")
	verifrt.Assert(v[0] == v[1], "two concurrent GetOrCreate calls for one key returned different values")
}
