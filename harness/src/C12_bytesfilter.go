//verif:pkg ds/bytesfilter
package bytesfilter

import "verifrt"

// Property C12 (BytesFilter): remembers exactly the last N distinct identifiers.

//verif:h prop=C12 p.ops=4/5 p.maxn=2/3 cover=added,known,evicted
func H_C12_bytesfilter() {
	size := 1 + verifrt.Choose("n", verifrt.Param("maxn", 2))
	f := New(func(b []byte) [32]byte { return [32]byte{b[0]} }, size)
	var abs [][32]byte // oldest first
	has := func(id [32]byte) bool {
		for _, x := range abs {
			if x == id {
				return true
			}
		}

		return false
	}
	n := verifrt.Param("ops", 4)
	for i := 0; i < n; i++ {
		b := verifrt.U8("id")
		id := [32]byte{b}
		if verifrt.Choose("op", 2) == 0 {
			known := has(id)
			var added bool
			if verifrt.Choose("viaBytes", 2) == 1 {
				var got [32]byte
				got, added = f.Add([]byte{b})
				verifrt.Assert(got == id, "BytesFilter.Add returned a different identifier")
			} else {
				added = f.AddIdentifier(id)
			}
			verifrt.Assert(added == !known, "BytesFilter.Add: novelty differs from the model")
			if !known {
				verifrt.Cover("added")
				if len(abs) == size {
					verifrt.Cover("evicted")
					abs = abs[1:]
				}
				abs = append(abs, id)
			} else {
				verifrt.Cover("known")
			}
		} else {
			verifrt.Assert(f.ContainsIdentifier(id) == has(id), "BytesFilter.ContainsIdentifier differs from the last-N model")
			verifrt.Assert(f.Contains([]byte{b}) == has(id), "BytesFilter.Contains differs from the last-N model")
		}
		verifrt.Assert(len(f.identifiers) == len(abs) && f.knownIdentifiers.Size() == len(abs), "BytesFilter: representation size differs from the model")
	}
}
