//verif:pkg runtime/valuenotifier
package valuenotifier

import (
	"context"
	"sync"

	"verifrt"

	"github.com/iotaledger/hive.go/ierrors"
)

// Property C15 (value notifier): a listener's Wait returns success only if Notify for its value was called
// after the listener was created and before it was deregistered.

type c15L struct {
	l            *Listener
	value        uint8
	notified     bool // Notify(value) happened after creation and before deregistration
	deregistered bool
}

// H_C15_notifier_hist: all histories of up to p.events events over {Listener(v), Notify(v), Deregister, Wait}
// with two values (re-created listeners for an already notified value included). Wait is only called when it
// has to return (notified or deregistered); a Wait that blocks instead ends in the deadlock detector.
//
//verif:h prop=C15 p.events=4/5 cover=listener,notify,wait-ok,wait-dereg,recreated runs=5000000 timeout=900/900
func H_C15_notifier_hist() {
	n := New[uint8]()
	vals := [2]uint8{verifrt.U8("a"), verifrt.U8("b")}
	verifrt.Assume(vals[0] != vals[1])
	var ls []*c15L
	everNotified := [2]bool{}
	events := verifrt.Param("events", 4)
	verifrt.MustFinish()
	for e := 0; e < events; e++ {
		switch verifrt.Choose("event", 4) {
		case 0:
			if len(ls) >= 3 {
				verifrt.Assume(false)
			}
			vi := verifrt.Choose("value", 2)
			ls = append(ls, &c15L{l: n.Listener(vals[vi]), value: vals[vi]})
			verifrt.Cover("listener")
			if everNotified[vi] {
				verifrt.Cover("recreated")
			}
		case 1:
			vi := verifrt.Choose("value", 2)
			n.Notify(vals[vi])
			everNotified[vi] = true
			for _, l := range ls {
				if l.value == vals[vi] && !l.deregistered {
					l.notified = true
				}
			}
			verifrt.Cover("notify")
		case 2:
			verifrt.Assume(len(ls) > 0)
			l := ls[verifrt.Choose("which", len(ls))]
			l.l.Deregister()
			l.deregistered = true
		case 3:
			verifrt.Assume(len(ls) > 0)
			l := ls[verifrt.Choose("which", len(ls))]
			verifrt.Assume(l.notified || l.deregistered) // otherwise Wait legitimately blocks
			err := l.l.Wait(context.Background())
			if l.deregistered {
				verifrt.Cover("wait-dereg")
				verifrt.Assert(err != nil && ierrors.Is(err, ErrListenerDeregistered), "Wait on a deregistered listener must report ErrListenerDeregistered")
			} else {
				verifrt.Cover("wait-ok")
				verifrt.Assert(err == nil, "Wait must succeed: Notify for the listener's value was called while it was registered")
			}
			l.deregistered = true // Wait deregisters the listener on return
		}
		// no listener may have been released without a Notify for its value
		for _, l := range ls {
			if !l.notified && !l.deregistered {
				select {
				case <-l.l.channel:
					verifrt.Assert(false, "a listener was released although Notify was never called for its value since it was created")
				default:
				}
			}
		}
	}
}

// H_C15_notifier_conc: Wait racing with Notify / Deregister from another goroutine.
//
//verif:h prop=C15 preempt=2/3 cover=ok,dereg runs=5000000 timeout=900/900
func H_C15_notifier_conc() {
	n := New[uint8]()
	l := n.Listener(1)
	other := n.Listener(1) // a second listener for the same value keeps the entry alive
	mode := verifrt.Choose("mode", 3)
	var wg sync.WaitGroup
	wg.Add(2)
	var err error
	go func() {
		defer wg.Done()
		verifrt.MustFinish()
		err = l.Wait(context.Background())
	}()
	go func() {
		defer wg.Done()
		verifrt.MustFinish()
		switch mode {
		case 0:
			n.Notify(1)
		case 1:
			l.Deregister()
		case 2:
			other.Deregister()
			l.Deregister()
		}
	}()
	verifrt.MustFinish()
	wg.Wait()
	if mode == 0 {
		verifrt.Cover("ok")
		verifrt.Assert(err == nil, "Wait must succeed after Notify")
	} else {
		verifrt.Cover("dereg")
		verifrt.Assert(err != nil, "Wait returned success although Notify was never called")
	}
}

// H_C15_notifier_stale: a listener of an earlier generation (its value was notified, then a new listener for the
// same value was created) is deregistered or waited for; the new listener must still be released by the next
// Notify, and must not be released before it. (Six events: beyond the bound of H_C15_notifier_hist.)
//
//verif:h prop=C15 cover=stale-dereg,stale-wait,notified,not-notified
func H_C15_notifier_stale() {
	n := New[uint8]()
	v := verifrt.U8("v")
	l1 := n.Listener(v)
	var l1b *Listener
	if verifrt.Choose("twoOld", 2) == 1 {
		l1b = n.Listener(v)
	}
	n.Notify(v)
	l2 := n.Listener(v)
	verifrt.MustFinish()
	if verifrt.Choose("how", 2) == 0 {
		verifrt.Cover("stale-dereg")
		l1.Deregister()
	} else {
		verifrt.Cover("stale-wait")
		verifrt.Assert(l1.Wait(context.Background()) == nil, "Wait must succeed: Notify for the listener's value was called while it was registered")
	}
	if l1b != nil {
		l1b.Deregister()
	}
	select {
	case <-l2.channel:
		verifrt.Assert(false, "a listener was released although Notify was never called for its value since it was created")
	default:
	}
	if verifrt.Choose("notify", 2) == 1 {
		verifrt.Cover("notified")
		n.Notify(v)
		verifrt.Assert(l2.Wait(context.Background()) == nil, "Wait must succeed: Notify for the listener's value was called while it was registered")
	} else {
		verifrt.Cover("not-notified")
		l2.Deregister()
		err := l2.Wait(context.Background())
		verifrt.Assert(err != nil && ierrors.Is(err, ErrListenerDeregistered), "Wait on a deregistered listener must report ErrListenerDeregistered")
	}
}
