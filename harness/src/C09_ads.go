//verif:pkg ads
package ads

import (
	"bytes"
	"sync"

	"verifrt"

	"github.com/iotaledger/hive.go/kvstore"
	"github.com/iotaledger/hive.go/kvstore/mapdb"
	"github.com/iotaledger/hive.go/serializer/v2/typeutils"
)

// Property C09: authenticated map/set: contents, content-only root, faithful reopen.
//
// Keys are concrete (their SHA-256 decides the shape of the trie): two of them share the first 31 bits of their
// hash, so they live under a long extension node. Values have a chosen length 0..2 and SYMBOLIC bytes; digests over
// symbolic data follow the hash model of the engine (collision-free uninterpreted function, DESIGN.md 3.5).

type c09Key []byte
type c09Val []byte

func (k c09Key) Bytes() ([]byte, error) { return k, nil }
func c09KeyFromBytes(b []byte) (c09Key, int, error) {
	return append(c09Key{}, b...), len(b), nil
}
func (v c09Val) Bytes() ([]byte, error) { return v, nil }
func c09ValFromBytes(b []byte) (c09Val, int, error) {
	return append(c09Val{}, b...), len(b), nil
}

// sha256({45,37}) and sha256({235,161}) agree in their first 31 bits; {45} is a proper prefix of {45,37}
var c09Keys = []c09Key{{45, 37}, {235, 161}, {45}}

func c09NewMap(store kvstore.KVStore) Map[[32]byte, c09Key, c09Val] {
	return NewMap[[32]byte](store, typeutils.ByteArray32ToBytes, typeutils.ByteArray32FromBytes,
		c09Key.Bytes, c09KeyFromBytes, c09Val.Bytes, c09ValFromBytes)
}

func c09NewSet(store kvstore.KVStore) Set[[32]byte, c09Key] {
	return NewSet[[32]byte](store, typeutils.ByteArray32ToBytes, typeutils.ByteArray32FromBytes, c09Key.Bytes, c09KeyFromBytes)
}

// c09Store: the store handed to the map is the root of a database or a view inside it whose realm starts with a
// zero byte (the map keeps its raw keys, trie nodes, root and size in sub-realms 0..3 of whatever it is given).
func c09Store() kvstore.KVStore {
	root := mapdb.NewMapDB()
	if verifrt.Choose("realm", 2) == 0 {
		return root
	}
	view, err := root.WithExtendedRealm([]byte{0})
	verifrt.Assert(err == nil, "WithExtendedRealm failed")

	return view
}

type c09Model struct {
	present [3]bool
	val     [3]c09Val
}

func (m *c09Model) size() int {
	n := 0
	for _, p := range m.present {
		if p {
			n++
		}
	}

	return n
}

// c09Same: the two contents are equal (a symbolic boolean; presence and lengths are concrete).
func c09Same(a, b *c09Model) bool {
	same := true
	for k := range a.present {
		if a.present[k] != b.present[k] {
			return false
		}
		if a.present[k] {
			if len(a.val[k]) != len(b.val[k]) {
				return false
			}
			same = verifrt.And(same, bytes.Equal(a.val[k], b.val[k]))
		}
	}

	return same
}

func c09Value(name string, maxLen int) c09Val {
	n := verifrt.Choose(name+"Len", maxLen+1)
	v := make(c09Val, n)
	for k := range v {
		v[k] = verifrt.U8(name)
	}

	return v
}

// c09Check compares every observer of the map with the model.
func c09Check(m Map[[32]byte, c09Key, c09Val], model *c09Model) {
	ok := true
	for k, key := range c09Keys {
		v, exists, err := m.Get(key)
		has, herr := m.Has(key)
		ok = verifrt.And(ok, err == nil && herr == nil && exists == model.present[k] && has == model.present[k])
		if model.present[k] && exists {
			ok = verifrt.And(ok, bytes.Equal(v, model.val[k]))
		}
	}
	verifrt.Assert(ok, "Get/Has disagree with the plain map model")
	verifrt.Assert(m.Size() == model.size(), "Size differs from the number of keys in the model")
	var seen [3]int
	sok := true
	err := m.Stream(func(key c09Key, value c09Val) error {
		idx := -1
		for k := range c09Keys {
			if bytes.Equal(key, c09Keys[k]) {
				idx = k
			}
		}
		if idx < 0 || !model.present[idx] {
			sok = false

			return nil
		}
		seen[idx]++
		sok = verifrt.And(sok, bytes.Equal(value, model.val[idx]))

		return nil
	})
	for k := range seen {
		if model.present[k] != (seen[k] == 1) {
			sok = false
		}
	}
	verifrt.Assert(verifrt.And(err == nil, sok), "Stream does not report exactly the model's key/value pairs once each")
}

// c09Canonical builds a fresh map over a fresh store with the model's contents inserted in key order.
func c09Canonical(model *c09Model) [32]byte {
	m := c09NewMap(mapdb.NewMapDB())
	for k, key := range c09Keys {
		if model.present[k] {
			_ = m.Set(key, model.val[k])
		}
	}

	return m.Root()
}

type c09State struct {
	root  [32]byte
	model c09Model
}

// H_C09_map: every history of up to p.ops operations (Set with a symbolic value, Delete, Commit, Commit followed by
// re-opening the store) over three keys against the plain model; after every operation every observer is compared,
// the root is compared with the root of a canonical construction of the same contents, and with the roots of all
// earlier states of the history (equal exactly when the contents are).
//
//verif:h prop=C09 p.ops=3/4 p.maxlen=2/2 cover=set-new,overwrite,delete-hit,delete-miss,commit,reopen,empty-value,reinsert solverms=5000 portfolio=15 runs=3000000 timeout=900/900 steps=3000000
func H_C09_map() {
	store := mapdb.NewMapDB()
	m := c09NewMap(store)
	model := &c09Model{}
	verifrt.Assert(!m.WasRestoredFromStorage(), "a map over an empty store claims to be restored")
	committed := false
	deleted := [3]bool{}
	states := []c09State{{m.Root(), *model}}
	n := verifrt.Param("ops", 2)
	maxLen := verifrt.Param("maxlen", 1)
	for e := 0; e < n; e++ {
		switch op := verifrt.Choose("op", 8); {
		case op < 3: // Set
			v := c09Value("v", maxLen)
			if len(v) == 0 {
				verifrt.Cover("empty-value")
			}
			if model.present[op] {
				verifrt.Cover("overwrite")
			} else {
				verifrt.Cover("set-new")
				if deleted[op] {
					verifrt.Cover("reinsert")
				}
			}
			verifrt.Assert(m.Set(c09Keys[op], v) == nil, "Set failed on a working store")
			model.present[op], model.val[op] = true, v
		case op < 6: // Delete
			k := op - 3
			del, err := m.Delete(c09Keys[k])
			if model.present[k] {
				verifrt.Cover("delete-hit")
			} else {
				verifrt.Cover("delete-miss")
			}
			verifrt.Assert(err == nil && del == model.present[k], "Delete does not report whether the key was present")
			if model.present[k] {
				deleted[k] = true
			}
			model.present[k], model.val[k] = false, nil
		case op == 6: // Commit
			verifrt.Cover("commit")
			verifrt.Assert(m.Commit() == nil, "Commit failed on a working store")
			committed = true
		default: // Commit, then continue on a new instance over the same store
			verifrt.Cover("reopen")
			before := m.Root()
			verifrt.Assert(m.Commit() == nil, "Commit failed on a working store")
			committed = true
			m = c09NewMap(store)
			verifrt.Assert(m.Root() == before, "a re-opened map reports a different root than the committed one")
		}
		probe := c09NewMap(store)
		verifrt.Assert(probe.WasRestoredFromStorage() == committed, "WasRestoredFromStorage of a new instance is not 'a Commit happened before'")
		c09Check(m, model)
		root := m.Root()
		verifrt.Assert(root == c09Canonical(model), "the root differs from the root of a fresh map with the same contents (root depends on the history)")
		fwd, bwd := true, true
		for _, s := range states {
			same := c09Same(&s.model, model)
			fwd = verifrt.And(fwd, verifrt.Implies(same, s.root == root))
			bwd = verifrt.And(bwd, verifrt.Implies(s.root == root, same))
		}
		verifrt.Assert(fwd, "equal contents at two points of a history have different roots")
		verifrt.Assert(bwd, "different contents have the same root")
		states = append(states, c09State{root, *model})
	}
}

// H_C09_reopen: histories that start from a committed, re-opened map: one or two keys are set and committed, the
// store is re-opened, then p.ops free operations follow, then Commit and a second re-opening; every observer and
// the root are compared on the final instance. (Reaches Commit-after-Commit sequences that H_C09_map needs 4+
// operations for.)
//
//verif:h prop=C09 p.ops=2/3 p.maxlen=1/2 cover=overwrite-only,mixed solverms=5000 portfolio=15 runs=3000000 timeout=900/900 steps=3000000
func H_C09_reopen() {
	store := c09Store()
	m := c09NewMap(store)
	model := &c09Model{}
	maxLen := verifrt.Param("maxlen", 1)
	prefill := verifrt.Choose("prefill", 2)
	for k := 0; k <= prefill; k++ {
		v := c09Value("pre", maxLen)
		_ = m.Set(c09Keys[k], v)
		model.present[k], model.val[k] = true, v
	}
	verifrt.Assert(m.Commit() == nil, "Commit failed on a working store")
	m = c09NewMap(store)
	onlyOverwrites := true
	n := verifrt.Param("ops", 2)
	for e := 0; e < n; e++ {
		switch op := verifrt.Choose("op", 7); {
		case op < 3:
			v := c09Value("v", maxLen)
			if !model.present[op] {
				onlyOverwrites = false
			}
			verifrt.Assert(m.Set(c09Keys[op], v) == nil, "Set failed on a working store")
			model.present[op], model.val[op] = true, v
		case op < 6:
			k := op - 3
			del, err := m.Delete(c09Keys[k])
			verifrt.Assert(err == nil && del == model.present[k], "Delete does not report whether the key was present")
			if model.present[k] {
				onlyOverwrites = false
			}
			model.present[k], model.val[k] = false, nil
		default:
			verifrt.Assert(m.Commit() == nil, "Commit failed on a working store")
		}
	}
	if onlyOverwrites {
		verifrt.Cover("overwrite-only")
	} else {
		verifrt.Cover("mixed")
	}
	before := m.Root()
	verifrt.Assert(m.Commit() == nil, "Commit failed on a working store")
	m2 := c09NewMap(store)
	verifrt.Assert(m2.WasRestoredFromStorage(), "a map re-opened after a Commit does not claim to be restored")
	verifrt.Assert(m2.Root() == before, "a re-opened map reports a different root than the committed one")
	c09Check(m2, model)
	verifrt.Assert(m2.Root() == c09Canonical(model), "the root of a re-opened map differs from the root of a fresh map with the same contents")
}

// H_C09_set: the set flavour (Add/Delete/Has/Size/Stream/Commit/re-open) over the same keys. The values are the empty
// value, so nothing is symbolic here: the histories are enumerated through the same engine.
//
//verif:h prop=C09 p.ops=3/4 cover=add,add-again,delete-hit,delete-miss,reopen
func H_C09_set() {
	store := c09Store()
	s := c09NewSet(store)
	var present [3]bool
	committed := false
	roots := map[[3]bool][32]byte{present: s.Root()}
	n := verifrt.Param("ops", 3)
	for e := 0; e < n; e++ {
		switch op := verifrt.Choose("op", 7); {
		case op < 3:
			if present[op] {
				verifrt.Cover("add-again")
			} else {
				verifrt.Cover("add")
			}
			verifrt.Assert(s.Add(c09Keys[op]) == nil, "Add failed on a working store")
			present[op] = true
		case op < 6:
			k := op - 3
			del, err := s.Delete(c09Keys[k])
			if present[k] {
				verifrt.Cover("delete-hit")
			} else {
				verifrt.Cover("delete-miss")
			}
			verifrt.Assert(err == nil && del == present[k], "Set.Delete does not report whether the key was present")
			present[k] = false
		default:
			verifrt.Cover("reopen")
			before := s.Root()
			verifrt.Assert(s.Commit() == nil, "Commit failed on a working store")
			committed = true
			s = c09NewSet(store)
			verifrt.Assert(s.Root() == before, "a re-opened set reports a different root than the committed one")
		}
		verifrt.Assert(c09NewSet(store).WasRestoredFromStorage() == committed, "WasRestoredFromStorage of a new set instance is not 'a Commit happened before'")
		size := 0
		for k, key := range c09Keys {
			has, err := s.Has(key)
			verifrt.Assert(err == nil && has == present[k], "Set.Has disagrees with the model")
			if present[k] {
				size++
			}
		}
		verifrt.Assert(s.Size() == size, "Set.Size differs from the number of members")
		var seen [3]int
		err := s.Stream(func(key c09Key) error {
			for k := range c09Keys {
				if bytes.Equal(key, c09Keys[k]) {
					seen[k]++
				}
			}

			return nil
		})
		verifrt.Assert(err == nil, "Set.Stream failed")
		for k := range seen {
			verifrt.Assert((seen[k] == 1) == present[k] && seen[k] <= 1, "Set.Stream does not report exactly the members once each")
		}
		root := s.Root()
		if r, ok := roots[present]; ok {
			verifrt.Assert(r == root, "equal set contents reached through different histories have different roots")
		}
		for p, r := range roots {
			if p != present {
				verifrt.Assert(r != root, "different set contents have the same root")
			}
		}
		roots[present] = root
	}
}

// H_C09_reinsert: one instance sets a key, deletes it and sets it again (the same or another symbolic value), with
// an optional Commit after each step, then commits and is re-opened: the stored trie must contain everything the
// final contents need (a delete followed by a re-insert of identical nodes included). Six or more operations of
// H_C09_map, beyond its bound.
//
//verif:h prop=C09 p.maxlen=1/2 cover=same-value,other-value,commit-between solverms=5000 portfolio=15 runs=3000000 timeout=900/900 steps=3000000
func H_C09_reinsert() {
	store := c09Store()
	m := c09NewMap(store)
	model := &c09Model{}
	maxLen := verifrt.Param("maxlen", 1)
	other := verifrt.Choose("otherKey", 2) == 1
	if other {
		w := c09Value("w", maxLen)
		verifrt.Assert(m.Set(c09Keys[1], w) == nil, "Set failed on a working store")
		model.present[1], model.val[1] = true, w
	}
	v1 := c09Value("v1", maxLen)
	verifrt.Assert(m.Set(c09Keys[0], v1) == nil, "Set failed on a working store")
	c1 := verifrt.Choose("commit1", 2) == 1
	if c1 {
		verifrt.Assert(m.Commit() == nil, "Commit failed on a working store")
	}
	del, err := m.Delete(c09Keys[0])
	verifrt.Assert(err == nil && del, "Delete does not report whether the key was present")
	c2 := verifrt.Choose("commit2", 2) == 1
	if c2 {
		verifrt.Assert(m.Commit() == nil, "Commit failed on a working store")
	}
	if c1 && c2 {
		verifrt.Cover("commit-between")
	}
	var v2 c09Val
	if verifrt.Choose("same", 2) == 1 {
		verifrt.Cover("same-value")
		v2 = append(c09Val{}, v1...)
	} else {
		verifrt.Cover("other-value")
		v2 = c09Value("v2", maxLen)
	}
	verifrt.Assert(m.Set(c09Keys[0], v2) == nil, "Set failed on a working store")
	model.present[0], model.val[0] = true, v2
	before := m.Root()
	verifrt.Assert(m.Commit() == nil, "Commit failed on a working store")
	c09Check(m, model)
	m2 := c09NewMap(store)
	verifrt.Assert(m2.WasRestoredFromStorage(), "a map re-opened after a Commit does not claim to be restored")
	verifrt.Assert(m2.Root() == before, "a re-opened map reports a different root than the committed one")
	c09Check(m2, model)
	verifrt.Assert(m2.Root() == c09Canonical(model), "the root of a re-opened map differs from the root of a fresh map with the same contents")
}

// H_C09_conc: the map and the set are documented as thread-safe: two concurrent mutations of one instance (the same
// element added twice, or an Add/Set racing with a Delete of the same key) leave contents, Size and Root as one of
// the two serial orders does, also after Commit and re-opening.
//
//verif:h prop=C09 preempt=2/2 cover=set-add-add,set-add-delete,map-set-set runs=3000000 timeout=900/900 steps=3000000
func H_C09_conc() {
	store := mapdb.NewMapDB()
	mode := verifrt.Choose("mode", 3)
	var wg sync.WaitGroup
	wg.Add(2)
	switch mode {
	case 0, 1:
		s := c09NewSet(store)
		if mode == 1 {
			verifrt.Assert(s.Add(c09Keys[0]) == nil, "Add failed on a working store")
		}
		_ = s.Add(c09Keys[1])
		deleted := false
		go func() {
			defer wg.Done()
			verifrt.MustFinish()
			_ = s.Add(c09Keys[0])
		}()
		go func() {
			defer wg.Done()
			verifrt.MustFinish()
			if mode == 0 {
				_ = s.Add(c09Keys[0])
			} else {
				deleted, _ = s.Delete(c09Keys[0])
			}
		}()
		verifrt.MustFinish()
		wg.Wait()
		has, err := s.Has(c09Keys[0])
		verifrt.Assert(err == nil, "Set.Has failed")
		if mode == 0 {
			verifrt.Cover("set-add-add")
			verifrt.Assert(has, "Set.Has disagrees with the model")
		} else {
			verifrt.Cover("set-add-delete")
			verifrt.Assert(deleted, "Set.Delete does not report whether the key was present")
		}
		want := 1
		if has {
			want = 2
		}
		verifrt.Assert(s.Size() == want, "Set.Size differs from the number of members")
		ref := c09NewSet(mapdb.NewMapDB())
		_ = ref.Add(c09Keys[1])
		if has {
			_ = ref.Add(c09Keys[0])
		}
		verifrt.Assert(s.Root() == ref.Root(), "the root differs from the root of a fresh set with the same contents (root depends on the history)")
		verifrt.Assert(s.Commit() == nil, "Commit failed on a working store")
		s2 := c09NewSet(store)
		verifrt.Assert(s2.Size() == want && s2.Root() == ref.Root(), "a re-opened set differs from the committed one")
	default:
		verifrt.Cover("map-set-set")
		m := c09NewMap(store)
		va, vb := c09Val{1}, c09Val{2}
		go func() {
			defer wg.Done()
			verifrt.MustFinish()
			_ = m.Set(c09Keys[0], va)
		}()
		go func() {
			defer wg.Done()
			verifrt.MustFinish()
			_ = m.Set(c09Keys[0], vb)
		}()
		verifrt.MustFinish()
		wg.Wait()
		v, exists, err := m.Get(c09Keys[0])
		verifrt.Assert(err == nil && exists && (bytes.Equal(v, va) || bytes.Equal(v, vb)), "Get/Has disagree with the plain map model")
		verifrt.Assert(m.Size() == 1, "Size differs from the number of keys in the model")
		model := &c09Model{}
		model.present[0], model.val[0] = true, v
		verifrt.Assert(m.Root() == c09Canonical(model), "the root differs from the root of a fresh map with the same contents (root depends on the history)")
	}
}
