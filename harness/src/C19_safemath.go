//verif:pkg core/safemath
package safemath

import (
	"verifrt"

	"github.com/iotaledger/hive.go/ierrors"
)

// Property C19: safemath returns the exact result or an overflow error, never wraps.
// Every harness makes all operands fully symbolic (all 2^(2w) pairs) and compares with the exact
// double-width result computed by the engine's specification primitives (verifrt.Exact*).

func c19Bin[T Integer](name string, f func(T, T) (T, error), exact func(T, T) (T, bool)) {
	x := verifrt.Nondet[T]("x")
	y := verifrt.Nondet[T]("y")
	if sb := verifrt.Param("splitbits", 0); sb > 0 {
		// case split on the top bits of x: the union of the cases is still every operand pair
		k := verifrt.Choose("xtop", 1<<sb)
		verifrt.Assume(int(uint64(x)>>(verifrt.Param("width", 64)-sb))&(1<<sb-1) == k)
	}
	r, err := f(x, y)
	want, fits := exact(x, y)
	if err == nil {
		verifrt.Cover("ok")
		verifrt.Assert(fits, name+": returned a value although the exact result is not representable (wrapped)")
		verifrt.Assert(r == want, name+": returned a value different from the exact result")
	} else {
		verifrt.Cover("error")
		verifrt.Assert(ierrors.Is(err, ErrIntegerOverflow), name+": error is not ErrIntegerOverflow")
		verifrt.Assert(!fits, name+": spurious overflow error for a representable result")
	}
}

func c19Div[T Integer](name string) {
	x := verifrt.Nondet[T]("x")
	y := verifrt.Nondet[T]("y")
	r, err := SafeDiv(x, y)
	if y == 0 {
		verifrt.Cover("divzero")
		verifrt.Assert(err != nil && ierrors.Is(err, ErrIntegerDivisionByZero), name+": division by zero must report ErrIntegerDivisionByZero")
		return
	}
	want, fits := verifrt.ExactDiv(x, y)
	if err == nil {
		verifrt.Cover("ok")
		verifrt.Assert(fits, name+": returned a value although the exact quotient is not representable (wrapped)")
		verifrt.Assert(r == want, name+": returned a value different from the exact quotient")
	} else {
		verifrt.Cover("error")
		verifrt.Assert(ierrors.Is(err, ErrIntegerOverflow), name+": error is not ErrIntegerOverflow")
		verifrt.Assert(!fits, name+": spurious error for a representable quotient")
	}
}

func c19Shl[T Integer](name string) {
	x := verifrt.Nondet[T]("x")
	s := verifrt.U8("s")
	r, err := SafeLeftShift(x, s)
	want, fits := verifrt.ExactShl(x, s)
	if err == nil {
		verifrt.Cover("ok")
		verifrt.Assert(fits, name+": returned a value although val*2^shift is not representable (wrapped)")
		verifrt.Assert(r == want, name+": returned a value different from val*2^shift")
	} else {
		verifrt.Cover("error")
		verifrt.Assert(ierrors.Is(err, ErrIntegerOverflow), name+": error is not ErrIntegerOverflow")
		verifrt.Assert(!fits, name+": spurious overflow error for a representable result")
	}
}

//verif:h prop=C19 cover=ok,error
func H_C19_Add_int8() { c19Bin("SafeAdd[int8]", SafeAdd[int8], verifrt.ExactAdd[int8]) }

//verif:h prop=C19 cover=ok,error
func H_C19_Sub_int8() { c19Bin("SafeSub[int8]", SafeSub[int8], verifrt.ExactSub[int8]) }

//verif:h prop=C19 cover=ok,error
func H_C19_Mul_int8() { c19Bin("SafeMul[int8]", SafeMul[int8], verifrt.ExactMul[int8]) }

//verif:h prop=C19 cover=ok,divzero
func H_C19_Div_int8() { c19Div[int8]("SafeDiv[int8]") }

//verif:h prop=C19 cover=ok,error
func H_C19_Shl_int8() { c19Shl[int8]("SafeLeftShift[int8]") }

//verif:h prop=C19 cover=ok,error
func H_C19_Add_uint8() { c19Bin("SafeAdd[uint8]", SafeAdd[uint8], verifrt.ExactAdd[uint8]) }

//verif:h prop=C19 cover=ok,error
func H_C19_Sub_uint8() { c19Bin("SafeSub[uint8]", SafeSub[uint8], verifrt.ExactSub[uint8]) }

//verif:h prop=C19 cover=ok,error
func H_C19_Mul_uint8() { c19Bin("SafeMul[uint8]", SafeMul[uint8], verifrt.ExactMul[uint8]) }

//verif:h prop=C19 cover=ok,divzero
func H_C19_Div_uint8() { c19Div[uint8]("SafeDiv[uint8]") }

//verif:h prop=C19 cover=ok,error
func H_C19_Shl_uint8() { c19Shl[uint8]("SafeLeftShift[uint8]") }

//verif:h prop=C19 cover=ok,error
func H_C19_Add_int16() { c19Bin("SafeAdd[int16]", SafeAdd[int16], verifrt.ExactAdd[int16]) }

//verif:h prop=C19 cover=ok,error
func H_C19_Sub_int16() { c19Bin("SafeSub[int16]", SafeSub[int16], verifrt.ExactSub[int16]) }

//verif:h prop=C19 cover=ok,error tier=thorough p.splitbits=6 p.width=16 solverms=20000 portfolio=300
func H_C19_Mul_int16() { c19Bin("SafeMul[int16]", SafeMul[int16], verifrt.ExactMul[int16]) }

//verif:h prop=C19 cover=ok,divzero
func H_C19_Div_int16() { c19Div[int16]("SafeDiv[int16]") }

//verif:h prop=C19 cover=ok,error
func H_C19_Shl_int16() { c19Shl[int16]("SafeLeftShift[int16]") }

//verif:h prop=C19 cover=ok,error
func H_C19_Add_uint16() { c19Bin("SafeAdd[uint16]", SafeAdd[uint16], verifrt.ExactAdd[uint16]) }

//verif:h prop=C19 cover=ok,error
func H_C19_Sub_uint16() { c19Bin("SafeSub[uint16]", SafeSub[uint16], verifrt.ExactSub[uint16]) }

//verif:h prop=C19 cover=ok,error tier=thorough p.splitbits=6 p.width=16 solverms=20000 portfolio=300
func H_C19_Mul_uint16() { c19Bin("SafeMul[uint16]", SafeMul[uint16], verifrt.ExactMul[uint16]) }

//verif:h prop=C19 cover=ok,divzero
func H_C19_Div_uint16() { c19Div[uint16]("SafeDiv[uint16]") }

//verif:h prop=C19 cover=ok,error
func H_C19_Shl_uint16() { c19Shl[uint16]("SafeLeftShift[uint16]") }

//verif:h prop=C19 cover=ok,error
func H_C19_Add_int32() { c19Bin("SafeAdd[int32]", SafeAdd[int32], verifrt.ExactAdd[int32]) }

//verif:h prop=C19 cover=ok,error
func H_C19_Sub_int32() { c19Bin("SafeSub[int32]", SafeSub[int32], verifrt.ExactSub[int32]) }

// not registered: the generic SafeMul equivalence does not close at this width on any back end (DESIGN.md C19)
//
//verif:h prop=C19probe cover=ok,error p.splitbits=8 p.width=32 solverms=20000 portfolio=600
func H_C19_Mul_int32() { c19Bin("SafeMul[int32]", SafeMul[int32], verifrt.ExactMul[int32]) }

//verif:h prop=C19 cover=ok,divzero
func H_C19_Div_int32() { c19Div[int32]("SafeDiv[int32]") }

//verif:h prop=C19 cover=ok,error
func H_C19_Shl_int32() { c19Shl[int32]("SafeLeftShift[int32]") }

//verif:h prop=C19 cover=ok,error
func H_C19_Add_uint32() { c19Bin("SafeAdd[uint32]", SafeAdd[uint32], verifrt.ExactAdd[uint32]) }

//verif:h prop=C19 cover=ok,error
func H_C19_Sub_uint32() { c19Bin("SafeSub[uint32]", SafeSub[uint32], verifrt.ExactSub[uint32]) }

// not registered: the generic SafeMul equivalence does not close at this width on any back end (DESIGN.md C19)
//
//verif:h prop=C19probe cover=ok,error p.splitbits=8 p.width=32 solverms=20000 portfolio=600
func H_C19_Mul_uint32() { c19Bin("SafeMul[uint32]", SafeMul[uint32], verifrt.ExactMul[uint32]) }

//verif:h prop=C19 cover=ok,divzero
func H_C19_Div_uint32() { c19Div[uint32]("SafeDiv[uint32]") }

//verif:h prop=C19 cover=ok,error
func H_C19_Shl_uint32() { c19Shl[uint32]("SafeLeftShift[uint32]") }

//verif:h prop=C19 cover=ok,error
func H_C19_Add_int64() { c19Bin("SafeAdd[int64]", SafeAdd[int64], verifrt.ExactAdd[int64]) }

//verif:h prop=C19 cover=ok,error
func H_C19_Sub_int64() { c19Bin("SafeSub[int64]", SafeSub[int64], verifrt.ExactSub[int64]) }

// not registered: the generic SafeMul equivalence does not close at this width on any back end (DESIGN.md C19)
//
//verif:h prop=C19probe cover=ok,error p.splitbits=8 p.width=64 solverms=20000 portfolio=600
func H_C19_Mul_int64() { c19Bin("SafeMul[int64]", SafeMul[int64], verifrt.ExactMul[int64]) }

//verif:h prop=C19 cover=ok,divzero
func H_C19_Div_int64() { c19Div[int64]("SafeDiv[int64]") }

//verif:h prop=C19 cover=ok,error
func H_C19_Shl_int64() { c19Shl[int64]("SafeLeftShift[int64]") }

//verif:h prop=C19 cover=ok,error
func H_C19_Add_uint64() { c19Bin("SafeAdd[uint64]", SafeAdd[uint64], verifrt.ExactAdd[uint64]) }

//verif:h prop=C19 cover=ok,error
func H_C19_Sub_uint64() { c19Bin("SafeSub[uint64]", SafeSub[uint64], verifrt.ExactSub[uint64]) }

// not registered: the generic SafeMul equivalence does not close at this width on any back end (DESIGN.md C19)
//
//verif:h prop=C19probe cover=ok,error p.splitbits=8 p.width=64 solverms=20000 portfolio=600
func H_C19_Mul_uint64() { c19Bin("SafeMul[uint64]", SafeMul[uint64], verifrt.ExactMul[uint64]) }

//verif:h prop=C19 cover=ok,divzero
func H_C19_Div_uint64() { c19Div[uint64]("SafeDiv[uint64]") }

//verif:h prop=C19 cover=ok,error
func H_C19_Shl_uint64() { c19Shl[uint64]("SafeLeftShift[uint64]") }

//verif:h prop=C19 cover=ok,error portfolio=120/600
func H_C19_MulUint64() { c19Bin("SafeMulUint64", SafeMulUint64, verifrt.ExactMul[uint64]) }

// not registered: sign bookkeeping + 128-bit product against the signed 128-bit product does not close
// (unknown after 10 s incremental + 120 s portfolio on every back end); listed as outside the claim.
//
//verif:h prop=C19probe cover=ok,error portfolio=120/600
func H_C19_MulInt64() { c19Bin("SafeMulInt64", SafeMulInt64, verifrt.ExactMul[int64]) }

//verif:h prop=C19 cover=ok,error,divzero portfolio=120/600
func H_C19_MulDiv64() {
	x, y, d := verifrt.U64("x"), verifrt.U64("y"), verifrt.U64("d")
	r, err := Safe64MulDiv(x, y, d)
	if d == 0 {
		verifrt.Cover("divzero")
		verifrt.Assert(err != nil && ierrors.Is(err, ErrIntegerDivisionByZero), "Safe64MulDiv: division by zero must report ErrIntegerDivisionByZero")
		return
	}
	want, fits := verifrt.ExactMulDiv64(x, y, d)
	if err == nil {
		verifrt.Cover("ok")
		verifrt.Assert(fits, "Safe64MulDiv: returned a value although floor(x*y/div) does not fit in 64 bits (wrapped)")
		verifrt.Assert(r == want, "Safe64MulDiv: returned a value different from floor(x*y/div)")
	} else {
		verifrt.Cover("error")
		verifrt.Assert(ierrors.Is(err, ErrIntegerOverflow), "Safe64MulDiv: error is not ErrIntegerOverflow")
		verifrt.Assert(!fits, "Safe64MulDiv: spurious overflow error for a representable result")
	}
}

// c19Small: one operand symbolic, the other from {0, 1, -1, 2, -2, MinT, MaxT}, both ways round. The general
// 32/64-bit multiplication queries do not close (DESIGN.md 0.3); these slices of the operand space do, and they
// contain the boundary pairs (identity, negation, doubling, the extreme values).
func c19Small[T Integer](name string, f func(T, T) (T, error), exact func(T, T) (T, bool), consts []T) {
	x := verifrt.Nondet[T]("x")
	c := consts[verifrt.Choose("const", len(consts))]
	a, b := x, c
	if verifrt.Choose("swap", 2) == 1 {
		a, b = c, x
	}
	r, err := f(a, b)
	want, fits := exact(a, b)
	if err == nil {
		verifrt.Cover("ok")
		verifrt.Assert(fits, name+": returned a value although the exact result is not representable (wrapped)")
		verifrt.Assert(r == want, name+": returned a value different from the exact result")
	} else {
		verifrt.Cover("error")
		verifrt.Assert(ierrors.Is(err, ErrIntegerOverflow), name+": error is not ErrIntegerOverflow")
		verifrt.Assert(!fits, name+": spurious overflow error for a representable result")
	}
}

//verif:h prop=C19 cover=ok,error solverms=20000 portfolio=120
func H_C19_MulInt64_small() {
	c19Small("SafeMulInt64 (one small or extreme operand)", SafeMulInt64, verifrt.ExactMul[int64], []int64{0, 1, -1, 2, -2, -1 << 63, 1<<63 - 1})
}

//verif:h prop=C19 cover=ok,error solverms=20000 portfolio=120
func H_C19_Mul_int64_small() {
	c19Small("SafeMul[int64] (one small or extreme operand)", SafeMul[int64], verifrt.ExactMul[int64], []int64{0, 1, -1, 2, -2, -1 << 63, 1<<63 - 1})
}

//verif:h prop=C19 cover=ok,error solverms=20000 portfolio=120
func H_C19_Mul_int32_small() {
	c19Small("SafeMul[int32] (one small or extreme operand)", SafeMul[int32], verifrt.ExactMul[int32], []int32{0, 1, -1, 2, -2, -1 << 31, 1<<31 - 1})
}

//verif:h prop=C19 cover=ok,error solverms=20000 portfolio=120
func H_C19_Mul_uint32_small() {
	c19Small("SafeMul[uint32] (one small or extreme operand)", SafeMul[uint32], verifrt.ExactMul[uint32], []uint32{0, 1, 2, 3, 1<<32 - 1})
}
