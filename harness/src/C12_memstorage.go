//verif:pkg core/memstorage
package memstorage

import (
	"verifrt"

	"github.com/iotaledger/hive.go/ds/shrinkingmap"
)

// Property C12 (IndexedStorage): a keyed store of per-index storages.

type c12Idx uint32

//verif:h prop=C12 p.ops=3/4 cover=create,get,evict,clear
func H_C12_memstorage() {
	st := NewIndexedStorage[c12Idx, uint8, uint8]()
	var keys []c12Idx
	var vals []*shrinkingmap.ShrinkingMap[uint8, uint8]
	idx := func(k c12Idx) int {
		for i := range keys {
			if keys[i] == k {
				return i
			}
		}

		return -1
	}
	u := [2]c12Idx{c12Idx(verifrt.U32("i0")), c12Idx(verifrt.U32("i1"))}
	n := verifrt.Param("ops", 3)
	for s := 0; s < n; s++ {
		k := u[verifrt.Choose("index", 2)]
		switch verifrt.Choose("op", 4) {
		case 0:
			got := st.Get(k, true)
			verifrt.Assert(got != nil, "IndexedStorage.Get(createIfMissing) returned nil")
			if i := idx(k); i >= 0 {
				verifrt.Assert(got == vals[i], "IndexedStorage.Get returned a different storage for an existing index")
			} else {
				keys, vals = append(keys, k), append(vals, got)
				verifrt.Cover("create")
			}
		case 1:
			got := st.Get(k)
			if i := idx(k); i >= 0 {
				verifrt.Assert(got == vals[i], "IndexedStorage.Get returned a different storage for an existing index")
				verifrt.Cover("get")
			} else {
				verifrt.Assert(got == nil, "IndexedStorage.Get created a storage although createIfMissing was not set")
			}
		case 2:
			got := st.Evict(k)
			if i := idx(k); i >= 0 {
				verifrt.Assert(got == vals[i], "IndexedStorage.Evict did not return the evicted storage")
				keys = append(append([]c12Idx{}, keys[:i]...), keys[i+1:]...)
				vals = append(append([]*shrinkingmap.ShrinkingMap[uint8, uint8]{}, vals[:i]...), vals[i+1:]...)
				verifrt.Cover("evict")
			} else {
				verifrt.Assert(got == nil, "IndexedStorage.Evict returned a storage for a missing index")
			}
		case 3:
			ck, cs := st.Clear()
			verifrt.Assert(len(ck) == len(keys) && len(cs) == len(keys), "IndexedStorage.Clear did not report every stored index")
			for j := range ck {
				i := idx(ck[j])
				verifrt.Assert(i >= 0 && cs[j] == vals[i], "IndexedStorage.Clear reported an index/storage pair that was not stored")
			}
			keys, vals = nil, nil
			verifrt.Cover("clear")
		}
		seen := 0
		st.ForEach(func(index c12Idx, storage *shrinkingmap.ShrinkingMap[uint8, uint8]) {
			i := idx(index)
			verifrt.Assert(i >= 0 && vals[i] == storage, "IndexedStorage.ForEach reports an entry that is not stored")
			seen++
		})
		verifrt.Assert(seen == len(keys), "IndexedStorage.ForEach does not report every stored index")
	}
}
