package main

import (
	"bufio"
	"crypto/sha256"
	"encoding/json"
	"fmt"
	"os"
	"os/exec"
	"path/filepath"
	"regexp"
	"sort"
	"strconv"
	"strings"
	"time"

	"gosym/gosym"
)

// verifDir / srcDir: where harness sources, known findings and assumptions are read from. VERIF_DIR selects a
// snapshot of /verif (background runs from a committed copy).
var (
	verifDir = "/verif"
	srcDir   = "/verif/harness/src"
)

// repoDir / harnessDir: the tree under check. VERIF_REPO selects another copy of the repository (a scratch
// worktree used to evaluate seeded changes in parallel); a temporary harness module with replace directives
// pointing there is generated for it.
var (
	repoDir    = "/repo"
	harnessDir = "/verif/harness"
	tmpHarness string
	outDir     = "/verif" // evidence/ and replays/ go here
)

func setupRepo() {
	if d := os.Getenv("VERIF_DIR"); d != "" {
		verifDir = d
		srcDir = filepath.Join(d, "harness", "src")
		outDir = d
	}
	if o := os.Getenv("VERIF_OUT"); o != "" {
		outDir = o
	}
	alt := os.Getenv("VERIF_REPO")
	if alt == "" || alt == "/repo" {
		return
	}
	repoDir = alt
	dir, err := os.MkdirTemp("", "gosym-harness-")
	if err != nil {
		fmt.Fprintln(os.Stderr, err)
		os.Exit(2)
	}
	tmpHarness = dir
	gm, _ := os.ReadFile("/verif/harness/go.mod")
	os.WriteFile(filepath.Join(dir, "go.mod"), []byte(strings.ReplaceAll(string(gm), "=> /repo/", "=> "+alt+"/")), 0o644)
	gs, _ := os.ReadFile("/verif/harness/go.sum")
	os.WriteFile(filepath.Join(dir, "go.sum"), gs, 0o644)
	harnessDir = dir
	if o := os.Getenv("VERIF_OUT"); o != "" {
		outDir = o
	} else {
		outDir = filepath.Join(dir, "out")
	}
}

func cleanupRepo() {
	if tmpHarness != "" {
		os.RemoveAll(tmpHarness)
	}
}

// harnessSpec is parsed from a `//verif:h key=value ...` line directly above a harness function.
type harnessSpec struct {
	Prop    string
	Func    string
	File    string
	PkgDir  string // relative to /repo
	PkgName string
	Import  string
	Tier    string // "" = both, "thorough" = thorough only, "quick" = quick only
	Cover   []string
	KV      map[string]string // remaining key=value (p.* params, preempt, steps, runs, native, ...)
}

func (h *harnessSpec) tiered(key, tier string, def int) int {
	v, ok := h.KV[key]
	if !ok {
		return def
	}
	parts := strings.Split(v, "/")
	s := parts[0]
	if tier == "thorough" && len(parts) > 1 {
		s = parts[1]
	}
	n, err := strconv.Atoi(s)
	if err != nil {
		return def
	}
	return n
}

func (h *harnessSpec) params(tier string) map[string]int {
	m := map[string]int{}
	for k := range h.KV {
		if strings.HasPrefix(k, "p.") {
			m[k[2:]] = h.tiered(k, tier, 0)
		}
	}
	return m
}

var funcRe = regexp.MustCompile(`^func\s+(\w+)\s*\(`)

func modulePathFor(dir string) (string, error) {
	d := dir
	for {
		gm := filepath.Join(d, "go.mod")
		if b, err := os.ReadFile(gm); err == nil {
			first := strings.Fields(strings.SplitN(string(b), "\n", 2)[0])
			if len(first) < 2 {
				return "", fmt.Errorf("bad go.mod %s", gm)
			}
			rel, _ := filepath.Rel(d, dir)
			if rel == "." {
				return first[1], nil
			}
			return first[1] + "/" + filepath.ToSlash(rel), nil
		}
		nd := filepath.Dir(d)
		if nd == d {
			return "", fmt.Errorf("no go.mod above %s", dir)
		}
		d = nd
	}
}

func scanHarnesses() ([]*harnessSpec, error) {
	files, _ := filepath.Glob(filepath.Join(srcDir, "*.go"))
	sort.Strings(files)
	var out []*harnessSpec
	for _, f := range files {
		fh, err := os.Open(f)
		if err != nil {
			return nil, err
		}
		sc := bufio.NewScanner(fh)
		sc.Buffer(make([]byte, 1<<20), 1<<20)
		var pkgDir, pkgName string
		var pending *harnessSpec
		for sc.Scan() {
			line := sc.Text()
			switch {
			case strings.HasPrefix(line, "//verif:pkg "):
				pkgDir = strings.TrimSpace(line[len("//verif:pkg "):])
			case strings.HasPrefix(line, "package ") && pkgName == "":
				pkgName = strings.Fields(line)[1]
			case strings.HasPrefix(line, "//verif:h "):
				h := &harnessSpec{File: f, PkgDir: pkgDir, KV: map[string]string{}}
				for _, kv := range strings.Fields(line[len("//verif:h "):]) {
					k, v, _ := strings.Cut(kv, "=")
					switch k {
					case "prop":
						h.Prop = v
					case "tier":
						h.Tier = v
					case "cover":
						h.Cover = strings.Split(v, ",")
					default:
						h.KV[k] = v
					}
				}
				pending = h
			default:
				if m := funcRe.FindStringSubmatch(line); m != nil && pending != nil {
					pending.Func = m[1]
					out = append(out, pending)
					pending = nil
				}
			}
		}
		fh.Close()
		imp, err := modulePathFor(filepath.Join(repoDir, pkgDir))
		if err != nil {
			return nil, err
		}
		for _, h := range out {
			if h.File == f {
				h.PkgName = pkgName
				h.Import = imp
				h.PkgDir = pkgDir
			}
		}
	}
	return out, nil
}

type knownFinding struct {
	Kind    string // known | fixed
	Prop    string
	Harness string
	Label   string
	What    string
}

func loadKnown() []knownFinding {
	b, err := os.ReadFile(filepath.Join(verifDir, "known_findings.txt"))
	if err != nil {
		return nil
	}
	var out []knownFinding
	re := regexp.MustCompile(`(\w+)=("([^"]*)"|\S+)`)
	for _, line := range strings.Split(string(b), "\n") {
		line = strings.TrimSpace(line)
		var k knownFinding
		switch {
		case strings.HasPrefix(line, "known:"):
			k.Kind = "known"
			line = line[len("known:"):]
		case strings.HasPrefix(line, "fixed:"):
			k.Kind = "fixed"
			line = line[len("fixed:"):]
		default:
			continue
		}
		for _, m := range re.FindAllStringSubmatch(line, -1) {
			v := m[2]
			if m[3] != "" || strings.HasPrefix(v, `"`) {
				v = m[3]
			}
			switch m[1] {
			case "property":
				k.Prop = v
			case "harness":
				k.Harness = v
			case "label":
				k.Label = v
			}
		}
		k.What = strings.TrimSpace(line)
		out = append(out, k)
	}
	return out
}

func parseArgs(args []string) (pos []string, flags map[string]string) {
	flags = map[string]string{}
	for i := 0; i < len(args); i++ {
		a := args[i]
		if strings.HasPrefix(a, "--") {
			k, v, ok := strings.Cut(a[2:], "=")
			if !ok && i+1 < len(args) && !strings.HasPrefix(args[i+1], "--") {
				v = args[i+1]
				i++
			}
			flags[k] = v
		} else {
			pos = append(pos, a)
		}
	}
	return
}

func loadProgram(specs []*harnessSpec, extraTags ...string) (*gosym.Program, error) {
	seenF := map[string]bool{}
	seenP := map[string]bool{}
	var files []gosym.HarnessFile
	var patterns []string
	for _, h := range specs {
		if !seenF[h.File] {
			seenF[h.File] = true
			hf, _, err := gosym.HarnessTarget(repoDir, h.File)
			if err != nil {
				return nil, err
			}
			files = append(files, hf)
		}
		if !seenP[h.Import] {
			seenP[h.Import] = true
			patterns = append(patterns, h.Import)
		}
	}
	tags := append([]string{"verif", "purego", "math_big_pure_go"}, extraTags...)
	start := time.Now()
	p, err := gosym.Load(harnessDir, patterns, files, tags)
	if err != nil {
		return nil, err
	}
	p.LoadSeconds = time.Since(start).Seconds()
	p.RepoDir = repoDir
	return p, nil
}

type checkResult struct {
	spec   *harnessSpec
	rep    *gosym.Report
	params map[string]int
	stage  string // "" (the bound that is claimed: must be exhausted) or "deepening" (thorough tier: larger bound, may stop at its deadline)
}

// deeper reports whether the harness has thorough-tier values that differ from its quick-tier ones.
func (h *harnessSpec) deeper() bool {
	for k, v := range h.KV {
		if k == "timeout" || k == "runs" || k == "steps" {
			continue
		}
		if p := strings.Split(v, "/"); len(p) > 1 && p[0] != p[1] {
			return true
		}
	}
	return false
}

func cmdCheck(args []string) int {
	pos, flags := parseArgs(args)
	if len(pos) < 1 {
		fmt.Fprintln(os.Stderr, "usage: gosym check <Cxx> [--tier quick|thorough] [--only Func] [--workers N]")
		return 2
	}
	prop := pos[0]
	tier := flags["tier"]
	if tier == "" {
		tier = os.Getenv("VERIF_TIER")
	}
	if tier == "" {
		tier = "quick"
	}
	seed := 0
	if s := os.Getenv("VERIF_SEED"); s != "" {
		seed, _ = strconv.Atoi(s)
	}
	start := time.Now()
	all, err := scanHarnesses()
	if err != nil {
		fmt.Fprintln(os.Stderr, "scan:", err)
		return 2
	}
	var specs []*harnessSpec
	for _, h := range all {
		if h.Prop != prop {
			continue
		}
		if h.Tier != "" && h.Tier != tier {
			continue
		}
		if o := flags["only"]; o != "" && !strings.Contains(h.Func, o) {
			continue
		}
		specs = append(specs, h)
	}
	if len(specs) == 0 {
		fmt.Fprintln(os.Stderr, "no harness registered for", prop)
		return 2
	}
	prog, err := loadProgram(specs)
	if err != nil {
		// the harness does not load against this tree: inconclusive, never a violation
		fmt.Fprintln(os.Stderr, "INCONCLUSIVE: harness does not load against this tree:", err)
		writeEvidenceFailure(prop, tier, seed, "harness does not load: "+err.Error(), time.Since(start))
		return 2
	}
	workers := 12
	if w := flags["workers"]; w != "" {
		workers, _ = strconv.Atoi(w)
	}
	var results []*checkResult
	for _, h := range specs {
		// thorough tier = the quick-tier bound (which must be exhausted and is the bound the check claims), followed
		// by the larger thorough-tier bound, which is explored until it is exhausted or its deadline is reached
		stages := []string{tier}
		if tier == "thorough" && h.deeper() && h.Tier == "" {
			stages = []string{"quick", "thorough"}
		}
		for si, stage := range stages {
			params := h.params(stage)
			opts := gosym.Options{
				Params:       params,
				MaxSteps:     int64(h.tiered("steps", stage, 3_000_000)),
				MaxRuns:      h.tiered("runs", stage, 300_000),
				Preempt:      h.tiered("preempt", stage, 2),
				Workers:      workers,
				SolverMs:     h.tiered("solverms", stage, 10000),
				PortfolioSec: h.tiered("portfolio", stage, 60),
				LoopCap:      h.tiered("loopcap", stage, 0),
				MaxVals:      h.tiered("maxvals", stage, 0),
				Verbose:      flags["v"] != "",
			}
			opts.ValidateSamples = 40
			if stage == "thorough" {
				opts.ValidateSamples = 200
			}
			if h.KV["native"] == "0" || os.Getenv("VERIF_NOVALIDATE") != "" {
				opts.ValidateSamples = 0
			}
			if ts := h.tiered("timeout", stage, 0); ts > 0 {
				opts.Deadline = time.Now().Add(time.Duration(ts) * time.Second)
			}
			rep := gosym.Explore(prog, h.Import+"."+h.Func, opts)
			fmt.Fprintf(os.Stderr, "[%s] %s: runs=%d done=%d infeasible=%d viol=%d unsupported=%d bounds=%d queries=%d solver=%.1fs wall=%.1fs %s\n",
				prop, h.Func, rep.Runs, rep.Done, rep.Infeasible, len(rep.Violations), len(rep.Unsupported), len(rep.Bounds),
				rep.SolverStats.Queries, rep.SolverStats.Time.Seconds(), rep.Wall.Seconds(), rep.Incomplete)
			cr := &checkResult{spec: h, rep: rep, params: params}
			if si > 0 {
				cr.stage = "deepening"
			}
			results = append(results, cr)
			if h.KV["reversemaps"] != "" && stage == "thorough" {
				opts.ReverseMaps = true
				rep2 := gosym.Explore(prog, h.Import+"."+h.Func, opts)
				results = append(results, &checkResult{spec: h, rep: rep2, params: params, stage: cr.stage})
			}
			if len(rep.Violations) > 0 {
				break
			}
		}
	}
	return conclude(prop, tier, seed, prog, results, start)
}

func writeEvidenceFailure(prop, tier string, seed int, why string, wall time.Duration) {
	ev := map[string]any{
		"property_id": prop, "tier": tier, "seed": seed, "level": "other",
		"coverage": map[string]any{"explanation": "check was inconclusive: " + why},
		"wall_s":   wall.Seconds(), "violations": 0,
	}
	b, _ := json.MarshalIndent(ev, "", " ")
	os.MkdirAll(filepath.Join(outDir, "evidence"), 0o755)
	os.WriteFile(filepath.Join(outDir, "evidence", prop+".json"), b, 0o644)
}

func conclude(prop, tier string, seed int, prog *gosym.Program, results []*checkResult, start time.Time) int {
	known := loadKnown()
	exit := 0
	inconclusive := []string{}
	var violLines, knownLines, notes []string
	totalViol := 0
	states, transitions := 0, int64(0)
	funcs := map[string]bool{}
	var samples []any
	var perHarness []map[string]any
	solver := map[string]any{}
	var q, sat, unsat, unk, pf int
	var stime float64
	bySolver := map[string]int{}
	validated := 0
	for _, r := range results {
		rep := r.rep
		h := r.spec
		states += rep.Done
		transitions += rep.Decisions
		for f := range rep.Funcs {
			funcs[f] = true
		}
		for _, s := range rep.Samples {
			if len(samples) < 12 {
				s["harness"] = h.Func
				samples = append(samples, s)
			}
		}
		q += rep.SolverStats.Queries
		sat += rep.SolverStats.Sat
		unsat += rep.SolverStats.Unsat
		unk += rep.SolverStats.Unknown
		pf += rep.SolverStats.Portfolio
		stime += rep.SolverStats.Time.Seconds()
		for k, v := range rep.SolverStats.BySolver {
			bySolver[k] += v
		}
		hinfo := map[string]any{
			"harness": h.Func, "params": r.params, "runs": rep.Runs, "completed_paths": rep.Done, "infeasible": rep.Infeasible,
			"decisions": rep.Decisions, "ssa_steps": rep.Steps, "wall_s": rep.Wall.Seconds(), "cover": rep.Cover,
			"max_preemptions_used": rep.MaxPreempt, "max_goroutines": rep.Threads,
		}
		if len(rep.Unsupported) > 0 {
			hinfo["unsupported"] = rep.Unsupported
			for k := range rep.Unsupported {
				inconclusive = append(inconclusive, h.Func+": UNSUPPORTED "+k)
			}
		}
		if len(rep.Bounds) > 0 {
			hinfo["bound_failures"] = rep.Bounds
			for k := range rep.Bounds {
				fmt.Printf("BOUND property=%s harness=%s %s\n", prop, h.Func, k)
				inconclusive = append(inconclusive, h.Func+": BOUND "+k)
			}
		}
		for _, e := range rep.Internal {
			inconclusive = append(inconclusive, h.Func+": INTERNAL "+e)
		}
		if rep.Incomplete != "" {
			if r.stage == "deepening" {
				// the claimed bound was exhausted by the preceding stage; this larger bound was explored as far as
				// its budget went. Reported, not claimed.
				hinfo["bound_not_exhausted"] = rep.Incomplete
				notes = append(notes, fmt.Sprintf("NOTE property=%s harness=%s larger bound explored in part only (%s); the bound claimed is the one of the preceding stage", prop, h.Func, rep.Incomplete))
			} else {
				inconclusive = append(inconclusive, h.Func+": INCOMPLETE "+rep.Incomplete)
			}
		}
		if r.stage != "" {
			hinfo["stage"] = r.stage
		} else {
			hinfo["stage"] = "claimed-bound"
		}
		if rep.Done == 0 && len(rep.Violations) == 0 {
			inconclusive = append(inconclusive, h.Func+": VACUOUS no run reached the end of the harness")
		}
		for _, c := range h.Cover {
			if rep.Cover[c] == 0 {
				// a cover point may be unreachable exactly because a violation cut the path short
				if len(rep.Violations) == 0 {
					inconclusive = append(inconclusive, h.Func+": VACUOUS cover point not reached: "+c)
				}
			}
		}
		for _, v := range rep.Violations {
			kf := matchKnown(known, prop, h.Func, v.Label)
			confirmed, how := confirm(prog, h, r.params, v)
			v.Native = how
			path := writeReplay(prop, h, v)
			if !confirmed {
				inconclusive = append(inconclusive, fmt.Sprintf("%s: counterexample for %q did not reproduce (%s): %s", h.Func, v.Label, how, path))
				continue
			}
			if kf != nil {
				knownLines = append(knownLines, fmt.Sprintf("KNOWN-FINDING: property=%s harness=%s label=%q replay=%s", prop, h.Func, v.Label, path))
				continue
			}
			totalViol++
			violLines = append(violLines, fmt.Sprintf("VIOLATION property=%s replay=%s harness=%s label=%q confirmed=%s", prop, path, h.Func, v.Label, how))
		}
		hinfo["violations"] = len(rep.Violations)
		perHarness = append(perHarness, hinfo)
	}
	if os.Getenv("VERIF_NOVALIDATE") == "" {
		n, probs := validateAll(results)
		validated = n
		for _, p := range probs {
			inconclusive = append(inconclusive, "TRANSLATOR-VALIDATION "+p)
		}
		for _, m := range softMismatches {
			notes = append(notes, "NOTE property="+prop+" translator validation: "+m)
		}
	}
	for _, l := range notes {
		fmt.Println(l)
	}
	for _, l := range knownLines {
		fmt.Println(l)
	}
	for _, l := range violLines {
		fmt.Println(l)
	}
	if totalViol > 0 {
		exit = 1
	} else if len(inconclusive) > 0 {
		exit = 2
		for _, s := range inconclusive {
			fmt.Println("INCONCLUSIVE:", s)
		}
	}
	solver["queries"] = q
	solver["sat"] = sat
	solver["unsat"] = unsat
	solver["unknown"] = unk
	solver["portfolio_calls"] = pf
	solver["solver_wall_s"] = stime
	solver["by_backend"] = bySolver
	var fl []string
	for f := range funcs {
		fl = append(fl, f)
	}
	sort.Strings(fl)
	if len(samples) == 0 {
		samples = append(samples, map[string]any{"note": "no completed path"})
	}
	if states == 0 {
		states = 1
	}
	if transitions == 0 {
		transitions = 1
	}
	cov := map[string]any{
		"states": states, "transitions": transitions, "traces_validated_against_impl": validated, "samples": samples,
		"states_meaning":      "distinct completed symbolic paths (each covers every input satisfying its path condition)",
		"transitions_meaning": "decisions taken (branch / value / choice / schedule / select / clock)",
		"functions_encoded":   fl, "harnesses": perHarness, "solver": solver,
		"known_findings": len(knownLines), "inconclusive": inconclusive, "validation_route_differences": softMismatches,
		"engine_load_s": prog.LoadSeconds, "exhaustive": false,
		"trusted_base": []string{"gosym SSA interpreter (/verif/engine)", "intrinsic models listed in DESIGN.md 3.5", "z3 4.8.12 / z3 5.1.0 / cvc5 1.0", "go/ssa v0.29.0"},
	}
	ev := map[string]any{
		"property_id": prop, "tier": tier, "seed": seed, "level": "model_checking", "coverage": cov,
		"assumptions": assumptionsFor(prop), "wall_s": time.Since(start).Seconds(), "violations": totalViol,
	}
	b, _ := json.MarshalIndent(ev, "", " ")
	os.MkdirAll(filepath.Join(outDir, "evidence"), 0o755)
	if err := os.WriteFile(filepath.Join(outDir, "evidence", prop+".json"), b, 0o644); err != nil {
		fmt.Fprintln(os.Stderr, "cannot write evidence:", err)
		return 2
	}
	fmt.Printf("RESULT property=%s tier=%s exit=%d paths=%d decisions=%d violations=%d known=%d wall=%.1fs\n",
		prop, tier, exit, states, transitions, totalViol, len(knownLines), time.Since(start).Seconds())
	return exit
}

func matchKnown(known []knownFinding, prop, harness, label string) *knownFinding {
	for i := range known {
		k := &known[i]
		if k.Kind == "known" && k.Prop == prop && k.Label == label && (k.Harness == "" || k.Harness == harness) {
			return k
		}
	}
	return nil
}

func assumptionsFor(prop string) []string {
	b, err := os.ReadFile(filepath.Join(verifDir, "assumptions.json"))
	if err != nil {
		return []string{"see DESIGN.md"}
	}
	var m map[string][]string
	if json.Unmarshal(b, &m) != nil {
		return []string{"see DESIGN.md"}
	}
	return append(append([]string{}, m["*"]...), m[prop]...)
}

func writeReplay(prop string, h *harnessSpec, v *gosym.Violation) string {
	dir := filepath.Join(outDir, "replays", prop)
	os.MkdirAll(dir, 0o755)
	sum := sha256.Sum256([]byte(h.Func + "|" + v.Label))
	path := filepath.Join(dir, fmt.Sprintf("%s_%x.json", h.Func, sum[:4]))
	out := map[string]any{
		"property": prop, "harness": h.Func, "harness_file": h.File, "import": h.Import, "label": v.Label, "kind": v.Kind,
		"detail": v.Detail, "model": v.Model, "trace": v.Trace, "params": v.Params, "schedule": v.Sched,
		"confirmed": v.Native, "choices": choicesOf(v.Trace), "preempt": v.Preempt,
	}
	b, _ := json.MarshalIndent(out, "", " ")
	os.WriteFile(path, b, 0o644)
	return path
}

func choicesOf(trace []gosym.Decision) []int {
	var c []int
	for _, d := range trace {
		if d.K == "ch" {
			c = append(c, int(d.N))
		}
	}
	return c
}

// confirm validates a counterexample: engine re-execution with the concrete model, then (single-goroutine
// harnesses) a native run of the same harness against the real build.
func confirm(prog *gosym.Program, h *harnessSpec, params map[string]int, v *gosym.Violation) (bool, string) {
	opts := gosym.Options{Params: params, Workers: 1, Replay: v.Trace, ReplayModel: v.Model, Preempt: v.Preempt, MaxSteps: 5_000_000}
	if opts.ReplayModel == nil {
		opts.ReplayModel = map[string]string{}
	}
	rep := gosym.Explore(prog, h.Import+"."+h.Func, opts)
	ok := false
	for _, rv := range rep.Violations {
		if rv.Label == v.Label {
			ok = true
		}
	}
	if !ok {
		return false, "engine re-execution with the solver model did not reproduce"
	}
	if v.Kind == "deadlock" || v.Kind == "race" || v.Kind == "alloc" || rep.Threads > 1 || h.KV["native"] == "0" {
		return true, "engine-reexecution"
	}
	for _, d := range v.Trace {
		switch d.K {
		case "sel", "sc", "clk", "rnd":
			// the counterexample depends on a choice the native run-time makes by itself (select among ready
			// cases, scheduling, timer firing, math/rand): a native run cannot be steered onto it
			return true, "engine-reexecution"
		}
	}
	failed, panicked, err := nativeReplay(h, params, v.Model, choicesOf(v.Trace))
	if err != nil {
		return false, "native replay could not run: " + err.Error()
	}
	switch v.Kind {
	case "assert":
		for _, f := range failed {
			if f == v.Label {
				return true, "native"
			}
		}
		return false, fmt.Sprintf("native run did not fail the assertion (failed=%v panic=%q)", failed, panicked)
	case "panic":
		if panicked != "" {
			return true, "native"
		}
		return false, "native run did not panic"
	}
	return true, "engine-reexecution"
}

var nativeTestTmpl = `package %s

import (
	"fmt"
	"os"
	"testing"

	"verifrt"
)

func TestVerifReplay(t *testing.T) {
	failed, p := verifrt.RunReplay(%s)
	for _, f := range failed {
		fmt.Println("VERIF-FAILED:", f)
	}
	if p != nil {
		fmt.Printf("VERIF-PANIC: %%v\n", p)
	}
	for _, o := range verifrt.Observed {
		fmt.Println("VERIF-OBS:", o)
	}
	fmt.Println("VERIF-REPLAY-END")
	_ = os.Stdout
}
`

func nativeReplay(h *harnessSpec, params map[string]int, model map[string]string, choices []int) (failed []string, panicked string, err error) {
	tmp, err := os.MkdirTemp("", "gosym-replay-")
	if err != nil {
		return nil, "", err
	}
	defer os.RemoveAll(tmp)
	rf := map[string]any{"model": model, "choices": choices, "params": params}
	b, _ := json.Marshal(rf)
	rpath := filepath.Join(tmp, "replay.json")
	os.WriteFile(rpath, b, 0o644)
	hf, _, err := gosym.HarnessTarget(repoDir, h.File)
	if err != nil {
		return nil, "", err
	}
	testSrc := filepath.Join(tmp, "replay_test.go")
	os.WriteFile(testSrc, []byte(fmt.Sprintf(nativeTestTmpl, h.PkgName, h.Func)), 0o644)
	testTarget := filepath.Join(filepath.Dir(hf.Target), "zz_verif_replay_test.go")
	ov := map[string]any{"Replace": map[string]string{hf.Target: hf.Src, testTarget: testSrc}}
	ob, _ := json.Marshal(ov)
	opath := filepath.Join(tmp, "overlay.json")
	os.WriteFile(opath, ob, 0o644)
	cmd := exec.Command("go", "test", "-v", "-vet=off", "-count=1", "-tags=verif", "-overlay", opath, "-run", "^TestVerifReplay$", "-timeout", "120s", h.Import)
	cmd.Dir = harnessDir
	cmd.Env = append(os.Environ(), "GOFLAGS=-mod=mod", "GOPROXY=off", "GOSUMDB=off", "GOTOOLCHAIN=local", "VERIF_REPLAY="+rpath)
	out, runErr := cmd.CombinedOutput()
	s := string(out)
	if !strings.Contains(s, "VERIF-REPLAY-END") && !strings.Contains(s, "VERIF-") {
		if runErr != nil {
			// a crash of the test binary (fatal error, deadlock, timeout) counts as a panic witness
			if strings.Contains(s, "fatal error") || strings.Contains(s, "panic:") {
				return nil, firstLine(s, "fatal error", "panic:"), nil
			}
			return nil, "", fmt.Errorf("go test failed: %v\n%s", runErr, tail(s, 30))
		}
	}
	for _, line := range strings.Split(s, "\n") {
		switch {
		case strings.HasPrefix(line, "VERIF-FAILED: "):
			failed = append(failed, strings.TrimPrefix(line, "VERIF-FAILED: "))
		case strings.HasPrefix(line, "VERIF-PANIC: "):
			panicked = strings.TrimPrefix(line, "VERIF-PANIC: ")
		}
	}
	if panicked == "" && runErr != nil && (strings.Contains(s, "fatal error") || strings.Contains(s, "panic:")) {
		panicked = firstLine(s, "fatal error", "panic:")
	}
	return failed, panicked, nil
}

func firstLine(s string, needles ...string) string {
	for _, l := range strings.Split(s, "\n") {
		for _, n := range needles {
			if strings.Contains(l, n) {
				return l
			}
		}
	}
	return ""
}

func tail(s string, n int) string {
	lines := strings.Split(s, "\n")
	if len(lines) > n {
		lines = lines[len(lines)-n:]
	}
	return strings.Join(lines, "\n")
}

func cmdRun(args []string) int {
	pos, flags := parseArgs(args)
	if len(pos) < 1 {
		fmt.Fprintln(os.Stderr, "usage: gosym run <Func> [k=v ...] [--tier t] [--preempt n] [--workers n] [--v]")
		return 2
	}
	all, err := scanHarnesses()
	if err != nil {
		fmt.Fprintln(os.Stderr, err)
		return 2
	}
	var spec *harnessSpec
	for _, h := range all {
		if h.Func == pos[0] {
			spec = h
		}
	}
	if spec == nil {
		fmt.Fprintln(os.Stderr, "no such harness:", pos[0])
		return 2
	}
	tier := flags["tier"]
	if tier == "" {
		tier = "quick"
	}
	params := spec.params(tier)
	for _, kv := range pos[1:] {
		k, v, _ := strings.Cut(kv, "=")
		n, _ := strconv.Atoi(v)
		params[k] = n
	}
	prog, err := loadProgram([]*harnessSpec{spec})
	if err != nil {
		fmt.Fprintln(os.Stderr, err)
		return 2
	}
	fmt.Fprintf(os.Stderr, "loaded in %.1fs\n", prog.LoadSeconds)
	atoi := func(s string, d int) int {
		if s == "" {
			return d
		}
		n, _ := strconv.Atoi(s)
		return n
	}
	opts := gosym.Options{
		Params:       params,
		Preempt:      atoi(flags["preempt"], spec.tiered("preempt", tier, 2)),
		Workers:      atoi(flags["workers"], 12),
		MaxRuns:      atoi(flags["runs"], spec.tiered("runs", tier, 300000)),
		MaxSteps:     int64(atoi(flags["steps"], spec.tiered("steps", tier, 3_000_000))),
		PortfolioSec: atoi(flags["portfolio"], 60),
		MaxVals:      spec.tiered("maxvals", tier, 0),
		Verbose:      flags["v"] != "",
		StopOnFirst:  flags["first"] != "",
	}
	rep := gosym.Explore(prog, spec.Import+"."+spec.Func, opts)
	b, _ := json.MarshalIndent(map[string]any{
		"runs": rep.Runs, "done": rep.Done, "infeasible": rep.Infeasible, "decisions": rep.Decisions, "steps": rep.Steps,
		"unsupported": rep.Unsupported, "bounds": rep.Bounds, "internal": rep.Internal, "cover": rep.Cover,
		"incomplete": rep.Incomplete, "wall_s": rep.Wall.Seconds(), "queries": rep.SolverStats.Queries,
		"solver_s": rep.SolverStats.Time.Seconds(), "unknown": rep.SolverStats.Unknown, "by_solver": rep.SolverStats.BySolver,
		"threads": rep.Threads, "preempt_used": rep.MaxPreempt, "observations": rep.Observations,
	}, "", " ")
	fmt.Println(string(b))
	for _, v := range rep.Violations {
		fmt.Printf("violation kind=%s label=%q detail=%q model=%v\n", v.Kind, v.Label, v.Detail, v.Model)
		if flags["trace"] != "" {
			fmt.Println("  trace:", v.Trace)
			fmt.Println("  sched:", v.Sched)
		}
		if flags["confirm"] != "" {
			ok, how := confirm(prog, spec, params, v)
			fmt.Println("  confirm:", ok, how)
		}
	}
	if flags["samples"] != "" {
		for _, s := range rep.Samples {
			fmt.Println("sample:", s)
		}
	}
	return 0
}

func cmdReplay(args []string) int {
	if len(args) < 1 {
		fmt.Fprintln(os.Stderr, "usage: gosym replay <replay.json>")
		return 2
	}
	b, err := os.ReadFile(args[0])
	if err != nil {
		fmt.Fprintln(os.Stderr, err)
		return 2
	}
	var r struct {
		Property string            `json:"property"`
		Harness  string            `json:"harness"`
		Label    string            `json:"label"`
		Kind     string            `json:"kind"`
		Model    map[string]string `json:"model"`
		Trace    []gosym.Decision  `json:"trace"`
		Params   map[string]int    `json:"params"`
		Preempt  int               `json:"preempt"`
	}
	if err := json.Unmarshal(b, &r); err != nil {
		fmt.Fprintln(os.Stderr, err)
		return 2
	}
	all, err := scanHarnesses()
	if err != nil {
		fmt.Fprintln(os.Stderr, err)
		return 2
	}
	var spec *harnessSpec
	for _, h := range all {
		if h.Func == r.Harness {
			spec = h
		}
	}
	if spec == nil {
		fmt.Fprintln(os.Stderr, "harness not found:", r.Harness)
		return 2
	}
	prog, err := loadProgram([]*harnessSpec{spec})
	if err != nil {
		fmt.Fprintln(os.Stderr, err)
		return 2
	}
	v := &gosym.Violation{Harness: r.Harness, Label: r.Label, Kind: r.Kind, Model: r.Model, Trace: r.Trace, Params: r.Params, Preempt: r.Preempt}
	ok, how := confirm(prog, spec, r.Params, v)
	fmt.Printf("replay property=%s harness=%s label=%q reproduced=%v via=%s\n", r.Property, r.Harness, r.Label, ok, how)
	if ok {
		return 1
	}
	return 0
}

func cmdLitmus(args []string) int {
	return runLitmus(args)
}
