package main

import (
	"encoding/json"
	"fmt"
	"os"
	"os/exec"
	"path/filepath"
	"sort"
	"strings"
	"sync"

	"gosym/gosym"
)

// Translator validation (DESIGN.md 4.5): completed single-goroutine paths sampled by the explorer are replayed
// through the NATIVE build of the same harness under a model of their path condition and the recorded Choose
// decisions. The native run must pass every assertion, must not panic, and must reach the same cover points and
// produce the same observations as the engine did on that path. Any difference means that the interpreter and
// the compiler disagree about the code: the check is inconclusive (exit 2), never a pass.

type valSample struct {
	Harness string            `json:"harness"`
	Choices []int             `json:"choices"`
	Model   map[string]string `json:"model"`
	Params  map[string]int    `json:"params"`
	cover   []string
	obs     []string
}

var validateTestTmpl = `package %s

import (
	"fmt"
	"os"
	"strings"
	"testing"

	"verifrt"
)

func TestVerifValidate(t *testing.T) {
	hs := map[string]func(){%s}
	for k, s := range verifrt.LoadSamples(os.Getenv("VERIF_SAMPLES")) {
		failed, p, cover, obs := verifrt.RunSample(s, hs[s.Harness])
		ps := ""
		if p != nil {
			ps = strings.ReplaceAll(fmt.Sprint(p), "\n", " ")
		}
		fmt.Printf("VERIF-SAMPLE %%d failed=%%q panic=%%q cover=%%q obs=%%q\n", k, strings.Join(failed, "|"), ps, strings.Join(cover, ","), strings.Join(obs, "|"))
	}
	fmt.Println("VERIF-VALIDATE-END")
}
`

// validateAll replays the samples of all results, grouped by package (one native test binary per package,
// packages in parallel). It returns the number of samples that agreed and the list of disagreements.
func validateAll(results []*checkResult) (int, []string) {
	type group struct {
		spec    *harnessSpec
		files   map[string]bool
		funcs   map[string]bool
		samples []*valSample
	}
	groups := map[string]*group{}
	for _, r := range results {
		if r.spec.KV["native"] == "0" || len(r.rep.ValSamples) == 0 {
			continue
		}
		g := groups[r.spec.Import]
		if g == nil {
			g = &group{spec: r.spec, files: map[string]bool{}, funcs: map[string]bool{}}
			groups[r.spec.Import] = g
		}
		g.files[r.spec.File] = true
		g.funcs[r.spec.Func] = true
		for _, s := range r.rep.ValSamples {
			g.samples = append(g.samples, &valSample{Harness: r.spec.Func, Choices: s.Choices, Model: s.Model, Params: r.params, cover: s.Cover, obs: s.Obs})
		}
	}
	var mu sync.Mutex
	var wg sync.WaitGroup
	ok := 0
	var problems []string
	sem := make(chan struct{}, 6)
	for _, g := range groups {
		wg.Add(1)
		go func(g *group) {
			defer wg.Done()
			sem <- struct{}{}
			defer func() { <-sem }()
			n, probs := validateGroup(g.spec, g.files, g.funcs, g.samples)
			mu.Lock()
			ok += n
			problems = append(problems, probs...)
			mu.Unlock()
		}(g)
	}
	wg.Wait()
	sort.Strings(problems)
	return ok, problems
}

var (
	softMu         sync.Mutex
	softMismatches []string
)

func validateGroup(spec *harnessSpec, files, funcs map[string]bool, samples []*valSample) (int, []string) {
	tmp, err := os.MkdirTemp("", "gosym-validate-")
	if err != nil {
		return 0, []string{err.Error()}
	}
	defer os.RemoveAll(tmp)
	b, _ := json.Marshal(samples)
	spath := filepath.Join(tmp, "samples.json")
	os.WriteFile(spath, b, 0o644)
	repl := map[string]string{}
	var dir string
	for f := range files {
		hf, _, err := gosym.HarnessTarget(repoDir, f)
		if err != nil {
			return 0, []string{err.Error()}
		}
		repl[hf.Target] = hf.Src
		dir = filepath.Dir(hf.Target)
	}
	var fl []string
	for f := range funcs {
		fl = append(fl, fmt.Sprintf("%q: %s", f, f))
	}
	sort.Strings(fl)
	testSrc := filepath.Join(tmp, "validate_test.go")
	os.WriteFile(testSrc, []byte(fmt.Sprintf(validateTestTmpl, spec.PkgName, strings.Join(fl, ", "))), 0o644)
	repl[filepath.Join(dir, "zz_verif_validate_test.go")] = testSrc
	ob, _ := json.Marshal(map[string]any{"Replace": repl})
	opath := filepath.Join(tmp, "overlay.json")
	os.WriteFile(opath, ob, 0o644)
	cmd := exec.Command("go", "test", "-v", "-vet=off", "-count=1", "-tags=verif", "-overlay", opath, "-run", "^TestVerifValidate$", "-timeout", "600s", spec.Import)
	cmd.Dir = harnessDir
	cmd.Env = append(os.Environ(), "GOFLAGS=-mod=mod", "GOPROXY=off", "GOSUMDB=off", "GOTOOLCHAIN=local", "VERIF_SAMPLES="+spath)
	out, runErr := cmd.CombinedOutput()
	s := string(out)
	if !strings.Contains(s, "VERIF-VALIDATE-END") {
		return 0, []string{fmt.Sprintf("%s: native validation run did not finish (%v): %s", spec.Import, runErr, tail(s, 12))}
	}
	ok := 0
	var probs []string
	seen := map[int]bool{}
	for _, line := range strings.Split(s, "\n") {
		if !strings.HasPrefix(line, "VERIF-SAMPLE ") {
			continue
		}
		var k int
		var failed, pan, cover, obs string
		if _, err := fmt.Sscanf(line, "VERIF-SAMPLE %d failed=%q panic=%q cover=%q obs=%q", &k, &failed, &pan, &cover, &obs); err != nil || k < 0 || k >= len(samples) {
			probs = append(probs, "unparsable validation line: "+line)
			continue
		}
		seen[k] = true
		sm := samples[k]
		want := strings.Join(sm.cover, ",")
		wantObs := strings.Join(sm.obs, "|")
		switch {
		case failed != "":
			probs = append(probs, fmt.Sprintf("%s sample %d: native run fails assertion %q on a path the engine completed (choices %v model %v)", sm.Harness, k, failed, sm.Choices, sm.Model))
		case pan != "":
			probs = append(probs, fmt.Sprintf("%s sample %d: native run panics (%s) on a path the engine completed (choices %v model %v)", sm.Harness, k, pan, sm.Choices, sm.Model))
		case cover != want || obs != wantObs:
			// The native run took a different (assertion-free) route: Go's randomised map iteration order is
			// one legitimate reason (the engine iterates maps in insertion order), so this is reported and not
			// counted as validated, but it does not make the check inconclusive.
			softMu.Lock()
			softMismatches = append(softMismatches, fmt.Sprintf("%s sample %d: cover/observations differ: engine %q/%q native %q/%q (choices %v)", sm.Harness, k, want, wantObs, cover, obs, sm.Choices))
			softMu.Unlock()
		default:
			ok++
		}
	}
	if len(seen) != len(samples) {
		probs = append(probs, fmt.Sprintf("%s: %d of %d samples reported", spec.Import, len(seen), len(samples)))
	}
	return ok, probs
}

var litmusTestTmpl = `package %s

import (
	"fmt"
	"sort"
	"strings"
	"testing"

	"verifrt"
)

func TestVerifLitmus(t *testing.T) {
	hs := map[string]func(){%s}
	names := make([]string, 0, len(hs))
	for n := range hs {
		names = append(names, n)
	}
	sort.Strings(names)
	for _, name := range names {
		seen := map[string]int{}
		for k := 0; k < %d; k++ {
			_, p, _, obs := verifrt.RunSample(verifrt.Sample{Harness: name}, hs[name])
			o := strings.Join(obs, "|")
			if p != nil {
				o = "PANIC " + fmt.Sprint(p)
			}
			seen[o]++
		}
		for o, n := range seen {
			fmt.Printf("VERIF-LITMUS %%s %%q %%d\n", name, o, n)
		}
	}
	fmt.Println("VERIF-LITMUS-END")
}
`

// runLitmus: every harness registered with prop=LITMUS is explored exhaustively by the engine (all schedules
// within its pre-emption bound) and run natively many times (under the race detector's scheduler perturbation when
// available); every outcome seen natively must be among the engine's outcomes. Exit 0 if so.
func runLitmus(args []string) int {
	_, flags := parseArgs(args)
	all, err := scanHarnesses()
	if err != nil {
		fmt.Fprintln(os.Stderr, err)
		return 2
	}
	var specs []*harnessSpec
	for _, h := range all {
		if h.Prop == "LITMUS" {
			specs = append(specs, h)
		}
	}
	if len(specs) == 0 {
		fmt.Println("no litmus harness")
		return 2
	}
	prog, err := loadProgram(specs)
	if err != nil {
		fmt.Fprintln(os.Stderr, "litmus harnesses do not load:", err)
		return 2
	}
	engine := map[string]map[string]int{}
	bad := 0
	for _, h := range specs {
		rep := gosym.Explore(prog, h.Import+"."+h.Func, gosym.Options{Preempt: h.tiered("preempt", "quick", 6), Workers: 12, MaxRuns: 2_000_000, MaxSteps: 2_000_000})
		engine[h.Func] = rep.ObsSets
		if len(rep.Violations) > 0 || len(rep.Unsupported) > 0 || len(rep.Internal) > 0 || rep.Incomplete != "" {
			fmt.Printf("LITMUS %s: engine run not clean: violations=%d unsupported=%v internal=%v %s\n", h.Func, len(rep.Violations), rep.Unsupported, rep.Internal, rep.Incomplete)
			for _, v := range rep.Violations {
				fmt.Printf("   %s: %s %s\n", v.Kind, v.Label, v.Detail)
			}
			bad++
		}
	}
	// native side
	tmp, err := os.MkdirTemp("", "gosym-litmus-")
	if err != nil {
		return 2
	}
	defer os.RemoveAll(tmp)
	repl := map[string]string{}
	var dir string
	var fl []string
	files := map[string]bool{}
	for _, h := range specs {
		files[h.File] = true
		fl = append(fl, fmt.Sprintf("%q: %s", h.Func, h.Func))
	}
	for f := range files {
		hf, _, err := gosym.HarnessTarget(repoDir, f)
		if err != nil {
			return 2
		}
		repl[hf.Target] = hf.Src
		dir = filepath.Dir(hf.Target)
	}
	sort.Strings(fl)
	iters := 3000
	if n := flags["iters"]; n != "" {
		fmt.Sscanf(n, "%d", &iters)
	}
	testSrc := filepath.Join(tmp, "litmus_test.go")
	os.WriteFile(testSrc, []byte(fmt.Sprintf(litmusTestTmpl, specs[0].PkgName, strings.Join(fl, ", "), iters)), 0o644)
	repl[filepath.Join(dir, "zz_verif_litmus_test.go")] = testSrc
	ob, _ := json.Marshal(map[string]any{"Replace": repl})
	opath := filepath.Join(tmp, "overlay.json")
	os.WriteFile(opath, ob, 0o644)
	cmd := exec.Command("go", "test", "-v", "-vet=off", "-count=1", "-tags=verif", "-overlay", opath, "-run", "^TestVerifLitmus$", "-timeout", "900s", specs[0].Import)
	cmd.Dir = harnessDir
	cmd.Env = append(os.Environ(), "GOFLAGS=-mod=mod", "GOPROXY=off", "GOSUMDB=off", "GOTOOLCHAIN=local")
	out, runErr := cmd.CombinedOutput()
	so := string(out)
	if !strings.Contains(so, "VERIF-LITMUS-END") {
		fmt.Printf("native litmus run did not finish (%v): %s\n", runErr, tail(so, 15))
		return 2
	}
	native := map[string]map[string]int{}
	for _, line := range strings.Split(so, "\n") {
		var name, o string
		var n int
		if _, err := fmt.Sscanf(line, "VERIF-LITMUS %s %q %d", &name, &o, &n); err == nil {
			if native[name] == nil {
				native[name] = map[string]int{}
			}
			native[name][o] = n
		}
	}
	for _, h := range specs {
		var eng, nat, extra []string
		for o := range engine[h.Func] {
			eng = append(eng, o)
			if _, ok := native[h.Func][o]; !ok {
				extra = append(extra, o)
			}
		}
		status := "ok"
		for o := range native[h.Func] {
			nat = append(nat, o)
			if _, ok := engine[h.Func][o]; !ok {
				status = "MISMATCH (native outcome the engine does not produce)"
				bad++
			}
		}
		sort.Strings(eng)
		sort.Strings(nat)
		sort.Strings(extra)
		fmt.Printf("LITMUS %-28s %s  engine=%v native=%v engine-only=%v\n", h.Func, status, eng, nat, extra)
	}
	if bad > 0 {
		return 1
	}
	return 0
}
