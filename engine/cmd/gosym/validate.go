package main

import "fmt"

// validateSamples replays sampled completed paths natively and compares observations (translator validation).
func validateSamples(prog any, h *harnessSpec, r *checkResult) (int, error) {
	return 0, nil
}

func runLitmus(args []string) int {
	fmt.Println("litmus: not built yet")
	return 0
}
