// Command gosym: symbolic checker for the hive.go properties.
//
//	gosym check <Cxx> [--tier quick|thorough]      run the registered check (checks.json), write evidence
//	gosym run <harness.go> <Func> [k=v ...]        development: explore one harness, print the report
//	gosym replay <replay.json>                     re-execute a recorded counterexample (engine + native)
//	gosym litmus                                   run the translator-validation litmus suite
package main

import (
	"fmt"
	"os"
)

func main() {
	if len(os.Args) < 2 {
		fmt.Fprintln(os.Stderr, "usage: gosym check|run|replay|litmus ...")
		os.Exit(2)
	}
	setupRepo()
	rc := -1
	switch os.Args[1] {
	case "check":
		rc = cmdCheck(os.Args[2:])
	case "run":
		rc = cmdRun(os.Args[2:])
	case "replay":
		rc = cmdReplay(os.Args[2:])
	case "litmus":
		rc = cmdLitmus(os.Args[2:])
	}
	cleanupRepo()
	if rc >= 0 {
		os.Exit(rc)
	}
	fmt.Fprintln(os.Stderr, "unknown command", os.Args[1])
	os.Exit(2)
}
