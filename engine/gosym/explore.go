package gosym

import (
	"fmt"
	"math/big"
	"sort"
	"strings"
	"sync"
	"time"

	"gosym/smt"
)

// Decision is one entry of a decision vector.
type Decision struct {
	K  string  `json:"k"`            // br, val, ch, as, am, sc, sel, clk
	N  int64   `json:"n"`            // chosen option / value
	Ex []int64 `json:"ex,omitempty"` // val: values excluded; the run must pick a fresh one
	F  bool    `json:"f,omitempty"`  // val: value still to be picked (fresh)
	W  string  `json:"w,omitempty"`  // informational: what was decided
}

// Outcome kinds of one run.
const (
	OutDone        = "done"
	OutInfeasible  = "infeasible"
	OutViolation   = "violation"
	OutUnsupported = "unsupported"
	OutBound       = "bound"
	OutDeadlock    = "deadlock"
	OutCrash       = "crash"
	OutInternal    = "internal"
)

// Violation describes a failed assertion (or crash/deadlock/race) together with what is needed to replay it.
type Violation struct {
	Harness string            `json:"harness"`
	Label   string            `json:"label"`
	Kind    string            `json:"kind"` // assert, panic, deadlock, race
	Detail  string            `json:"detail,omitempty"`
	Model   map[string]string `json:"model"` // nondet name -> decimal value
	Trace   []Decision        `json:"trace"`
	Params  map[string]int    `json:"params,omitempty"`
	Native  string            `json:"native_confirmed,omitempty"`
	Sched   []string          `json:"schedule,omitempty"`
	Preempt int               `json:"preempt"`
}

// runAbort ends a run immediately (host panic that bypasses target recover).
type runAbort struct {
	kind   string
	detail string
}

// Options configure an exploration.
type Options struct {
	Params       map[string]int
	MaxSteps     int64 // SSA instructions per run
	MaxRuns      int   // runs per harness
	MaxVals      int   // distinct values per concretisation point
	Preempt      int   // pre-emption bound
	Workers      int
	SolverMs     int
	PortfolioSec int
	Verbose      bool
	Deadline     time.Time
	LoopCap      int // iterations of one loop head per frame; 0 = unlimited
	ReverseMaps  bool
	StopOnFirst  bool
	Replay       []Decision        // when set: run exactly this vector
	ReplayModel  map[string]string // with Replay: concrete values for nondets
	// ValidateSamples > 0: collect up to that many completed single-goroutine paths (decision vector, a model of
	// the path condition, cover points, observations) for replay against the native build (translator validation)
	ValidateSamples int
	wantSample      func(cover map[string]bool) bool
}

// ValSample is one completed path handed to the native build for comparison.
type ValSample struct {
	Choices []int             `json:"choices"`
	Model   map[string]string `json:"model"`
	Cover   []string          `json:"cover"`
	Obs     []string          `json:"obs"`
}

// Report is the result of exploring one harness.
type Report struct {
	Harness      string
	Runs         int
	Done         int
	Infeasible   int
	Decisions    int64
	Steps        int64
	Violations   []*Violation
	Unsupported  map[string]int
	Bounds       map[string]int
	Internal     []string
	Cover        map[string]int
	Funcs        map[string]bool
	Unknowns     int
	SolverStats  smt.Stats
	Samples      []map[string]any
	Wall         time.Duration
	Incomplete   string // non-empty when the frontier was not exhausted (run cap / deadline)
	MaxPreempt   int
	Threads      int
	Observations []string
	ObsSets      map[string]int // distinct observation sequences of completed runs -> number of runs
	ValSamples   []ValSample
}

type workItem struct {
	prefix []Decision
}

// Explorer runs one harness function over all decision vectors.
type Explorer struct {
	prog    *Program
	harness string
	opts    Options

	mu       sync.Mutex
	frontier []workItem
	active   int
	cond     *sync.Cond
	rep      *Report
	violKeys map[string]bool
	stop     bool
}

func Explore(p *Program, harness string, opts Options) *Report {
	if opts.MaxSteps == 0 {
		opts.MaxSteps = 2_000_000
	}
	if opts.MaxRuns == 0 {
		opts.MaxRuns = 200_000
	}
	if opts.MaxVals == 0 {
		opts.MaxVals = 64
	}
	if opts.Workers == 0 {
		opts.Workers = 8
	}
	if opts.SolverMs == 0 {
		opts.SolverMs = 10000
	}
	e := &Explorer{prog: p, harness: harness, opts: opts, violKeys: map[string]bool{}}
	e.cond = sync.NewCond(&e.mu)
	e.rep = &Report{Harness: harness, Unsupported: map[string]int{}, Bounds: map[string]int{}, Cover: map[string]int{},
		Funcs: map[string]bool{}}
	e.rep.SolverStats.BySolver = map[string]int{}
	if opts.ValidateSamples > 0 && opts.Replay == nil {
		seen, taken := 0, 0
		sampled := map[string]bool{}
		var smu sync.Mutex
		e.opts.wantSample = func(cover map[string]bool) bool {
			smu.Lock()
			defer smu.Unlock()
			seen++
			if taken >= opts.ValidateSamples {
				return false
			}
			want := seen <= 4 || seen%53 == 0
			for k := range cover {
				if !sampled[k] {
					want = true
				}
			}
			if want {
				taken++
				for k := range cover {
					sampled[k] = true
				}
			}
			return want
		}
	}
	start := time.Now()
	if opts.Replay != nil {
		e.frontier = []workItem{{prefix: opts.Replay}}
		opts.Workers = 1
		e.opts.Workers = 1
	} else {
		e.frontier = []workItem{{}}
	}
	var wg sync.WaitGroup
	for w := 0; w < e.opts.Workers; w++ {
		wg.Add(1)
		go func(id int) {
			defer wg.Done()
			e.worker(id)
		}(w)
	}
	wg.Wait()
	e.rep.Wall = time.Since(start)
	if len(e.frontier) > 0 && e.rep.Incomplete == "" && !e.stop {
		e.rep.Incomplete = "frontier not exhausted"
	}
	return e.rep
}

func (e *Explorer) take() (workItem, bool) {
	e.mu.Lock()
	defer e.mu.Unlock()
	for {
		if e.stop {
			return workItem{}, false
		}
		if len(e.frontier) > 0 {
			if e.rep.Runs >= e.opts.MaxRuns {
				e.rep.Incomplete = fmt.Sprintf("run cap %d reached with %d prefixes pending", e.opts.MaxRuns, len(e.frontier))
				e.stop = true
				e.cond.Broadcast()
				return workItem{}, false
			}
			if !e.opts.Deadline.IsZero() && time.Now().After(e.opts.Deadline) {
				e.rep.Incomplete = fmt.Sprintf("deadline reached with %d prefixes pending", len(e.frontier))
				e.stop = true
				e.cond.Broadcast()
				return workItem{}, false
			}
			it := e.frontier[len(e.frontier)-1]
			e.frontier = e.frontier[:len(e.frontier)-1]
			e.active++
			e.rep.Runs++
			return it, true
		}
		if e.active == 0 {
			e.cond.Broadcast()
			return workItem{}, false
		}
		e.cond.Wait()
	}
}

func (e *Explorer) worker(id int) {
	ctx := smt.NewCtx()
	solver, err := smt.NewSolver(ctx)
	if err != nil {
		e.mu.Lock()
		e.rep.Internal = append(e.rep.Internal, "cannot start solver: "+err.Error())
		e.stop = true
		e.mu.Unlock()
		return
	}
	solver.TimeoutMs = e.opts.SolverMs
	solver.PortfolioSec = e.opts.PortfolioSec
	defer solver.Close()
	for {
		it, ok := e.take()
		if !ok {
			break
		}
		res := runOnce(e.prog, e.harness, e.opts, ctx, solver, it.prefix)
		e.mu.Lock()
		e.active--
		e.merge(res)
		if e.opts.Replay == nil {
			// push alternatives in reverse so the first alternative is explored first (DFS)
			for k := len(res.alts) - 1; k >= 0; k-- {
				e.frontier = append(e.frontier, workItem{prefix: res.alts[k]})
			}
		}
		e.cond.Broadcast()
		e.mu.Unlock()
	}
	e.mu.Lock()
	st := solver.Stats
	s := &e.rep.SolverStats
	s.Queries += st.Queries
	s.Sat += st.Sat
	s.Unsat += st.Unsat
	s.Unknown += st.Unknown
	s.Portfolio += st.Portfolio
	s.Time += st.Time
	for k, v := range st.BySolver {
		s.BySolver[k] += v
	}
	e.mu.Unlock()
}

type runResult struct {
	outcome    string
	detail     string
	alts       [][]Decision
	trace      []Decision
	violations []*Violation
	cover      map[string]bool
	funcs      map[string]bool
	steps      int64
	unknowns   int
	model      map[string]string
	maxPreempt int
	threads    int
	obs        []string
	sample     *ValSample
}

func (e *Explorer) merge(r *runResult) {
	rep := e.rep
	rep.Decisions += int64(len(r.trace))
	rep.Steps += r.steps
	rep.Unknowns += r.unknowns
	if r.maxPreempt > rep.MaxPreempt {
		rep.MaxPreempt = r.maxPreempt
	}
	if r.threads > rep.Threads {
		rep.Threads = r.threads
	}
	for k := range r.cover {
		rep.Cover[k]++
	}
	for k := range r.funcs {
		rep.Funcs[k] = true
	}
	switch r.outcome {
	case OutDone:
		rep.Done++
		if len(rep.Samples) < 6 || (rep.Done%97 == 0 && len(rep.Samples) < 12) {
			rep.Samples = append(rep.Samples, map[string]any{"decisions": traceString(r.trace), "example_inputs": r.model, "outcome": "done"})
		}
		if len(rep.Observations) < 200 {
			rep.Observations = append(rep.Observations, r.obs...)
		}
		if rep.ObsSets == nil {
			rep.ObsSets = map[string]int{}
		}
		rep.ObsSets[strings.Join(r.obs, "|")]++
		if r.sample != nil {
			rep.ValSamples = append(rep.ValSamples, *r.sample)
		}
	case OutInfeasible:
		rep.Infeasible++
	case OutUnsupported:
		rep.Unsupported[r.detail]++
	case OutBound:
		rep.Bounds[r.detail]++
	case OutInternal:
		if len(rep.Internal) < 20 {
			rep.Internal = append(rep.Internal, r.detail)
		}
	}
	for _, v := range r.violations {
		key := v.Label
		if e.violKeys[key] {
			continue
		}
		e.violKeys[key] = true
		rep.Violations = append(rep.Violations, v)
		if e.opts.StopOnFirst {
			e.stop = true
		}
	}
}

func traceString(t []Decision) string {
	var sb strings.Builder
	for k, d := range t {
		if k > 0 {
			sb.WriteByte(' ')
		}
		fmt.Fprintf(&sb, "%s:%d", d.K, d.N)
	}
	return sb.String()
}

// ---------------------------------------------------------------------------
// per-run decision machinery (methods on interpreter)

func (i *interpreter) abort(kind, detail string) {
	panic(runAbort{kind, detail})
}

func (i *interpreter) nextPrefix() (Decision, bool) {
	if i.pos < len(i.prefix) {
		d := i.prefix[i.pos]
		i.pos++
		return d, true
	}
	return Decision{}, false
}

func (i *interpreter) record(d Decision) {
	i.trace = append(i.trace, d)
}

func (i *interpreter) addAlt(d Decision) {
	alt := make([]Decision, len(i.trace)+1)
	copy(alt, i.trace)
	alt[len(i.trace)] = d
	i.alts = append(i.alts, alt)
}

func (i *interpreter) assertPC(t *smt.Term) {
	i.pc = append(i.pc, t)
	i.solver.Assert(t)
}

func (i *interpreter) check(t *smt.Term) smt.Result {
	r := i.solver.Check(t)
	if r == smt.Unknown {
		i.unknowns++
	}
	return r
}

// branch decides a symbolic condition.
func (i *interpreter) branch(c *smt.Term) bool {
	if c.IsTrue() {
		return true
	}
	if c.IsFalse() {
		return false
	}
	if i.replayModel != nil {
		return i.evalBool(c)
	}
	if d, ok := i.nextPrefix(); ok {
		if d.K != "br" {
			i.abort(OutInternal, fmt.Sprintf("replay divergence: expected br, vector has %s at %d", d.K, i.pos-1))
		}
		take := d.N == 1
		if take {
			i.assertPC(c)
		} else {
			i.assertPC(i.ctx.BNot(c))
		}
		i.record(d)
		return take
	}
	nc := i.ctx.BNot(c)
	rT := i.check(c)
	var rF smt.Result
	if rT == smt.Unsat {
		rF = smt.Sat // pc is satisfiable, so the other side is
	} else {
		rF = i.check(nc)
	}
	switch {
	case rT != smt.Unsat && rF != smt.Unsat:
		i.addAlt(Decision{K: "br", N: 0})
		i.record(Decision{K: "br", N: 1})
		i.assertPC(c)
		return true
	case rT != smt.Unsat:
		i.record(Decision{K: "br", N: 1})
		i.assertPC(c)
		return true
	default:
		i.record(Decision{K: "br", N: 0})
		i.assertPC(nc)
		return false
	}
}

func (i *interpreter) evalBool(c *smt.Term) bool {
	return smt.Eval(c, i.replayEnv, i.evalMemo).Sign() != 0
}

// concretize picks a concrete value for term t (VAL decision; alternatives explore other values).
func (i *interpreter) concretize(t *smt.Term, what string) *big.Int {
	if t.IsConst() {
		return t.Val
	}
	if i.replayModel != nil {
		return smt.Eval(t, i.replayEnv, i.evalMemo)
	}
	var ex []int64
	if d, ok := i.nextPrefix(); ok {
		if d.K != "val" {
			i.abort(OutInternal, fmt.Sprintf("replay divergence: expected val, vector has %s at %d", d.K, i.pos-1))
		}
		if !d.F {
			v := new(big.Int).SetUint64(uint64(d.N))
			v.And(v, new(big.Int).Sub(new(big.Int).Lsh(big.NewInt(1), uint(t.W)), big.NewInt(1)))
			i.assertPC(i.ctx.Eq(t, i.ctx.BV(v, t.W)))
			i.record(d)
			return v
		}
		ex = d.Ex
	}
	if len(ex) >= i.opts.MaxVals {
		i.abort(OutBound, "more than "+fmt.Sprint(i.opts.MaxVals)+" values at concretisation point "+what)
	}
	for _, e := range ex {
		i.assertPC(i.ctx.BNot(i.ctx.Eq(t, i.ctx.BVU(uint64(e), t.W))))
	}
	if t.W > 64 {
		i.abort(OutUnsupported, "concretisation of a value wider than 64 bits")
	}
	m, ok := i.solver.Model([]*smt.Term{t})
	if !ok {
		i.abort(OutInfeasible, "")
	}
	v := m[smt.Ref(t)]
	if v == nil {
		// get-value echoes the expression; take the only entry
		for _, vv := range m {
			v = vv
		}
	}
	if v == nil {
		i.abort(OutInternal, "no model value for concretisation of "+what)
	}
	nex := append(append([]int64{}, ex...), int64(v.Uint64()))
	i.addAlt(Decision{K: "val", F: true, Ex: nex, W: what})
	i.record(Decision{K: "val", N: int64(v.Uint64()), W: what})
	i.assertPC(i.ctx.Eq(t, i.ctx.BV(v, t.W)))
	return v
}

// choose enumerates 0..n-1 (CH decision).
func (i *interpreter) choose(kind string, n int, what string) int {
	if n <= 1 {
		return 0
	}
	if d, ok := i.nextPrefix(); ok {
		if d.K != kind {
			i.abort(OutInternal, fmt.Sprintf("replay divergence: expected %s, vector has %s at %d", kind, d.K, i.pos-1))
		}
		i.record(d)
		return int(d.N)
	}
	for k := 1; k < n; k++ {
		i.addAlt(Decision{K: kind, N: int64(k), W: what})
	}
	i.record(Decision{K: kind, N: 0, W: what})
	return 0
}

// chooseFrom is choose over an explicit list of allowed option numbers (first is the default).
func (i *interpreter) chooseFrom(kind string, opts []int, what string) int {
	if len(opts) == 1 {
		return opts[0]
	}
	if d, ok := i.nextPrefix(); ok {
		if d.K != kind {
			i.abort(OutInternal, fmt.Sprintf("replay divergence: expected %s, vector has %s at %d", kind, d.K, i.pos-1))
		}
		i.record(d)
		return int(d.N)
	}
	for _, o := range opts[1:] {
		i.addAlt(Decision{K: kind, N: int64(o), W: what})
	}
	i.record(Decision{K: kind, N: int64(opts[0]), W: what})
	return opts[0]
}

func (i *interpreter) assume(c value) {
	switch c := c.(type) {
	case bool:
		if !c {
			i.abort(OutInfeasible, "")
		}
	case *Sym:
		if i.replayModel != nil {
			if !i.evalBool(c.T) {
				i.abort(OutInfeasible, "assumption false under the replay model")
			}
			return
		}
		if d, ok := i.nextPrefix(); ok {
			if d.K != "am" {
				i.abort(OutInternal, "replay divergence: expected am, vector has "+d.K)
			}
			i.assertPC(c.T)
			i.record(d)
			return
		}
		if i.check(c.T) == smt.Unsat {
			i.abort(OutInfeasible, "")
		}
		i.record(Decision{K: "am", N: 1})
		i.assertPC(c.T)
	}
}

// constrain adds an environment constraint that is satisfiable by construction (no decision, no query).
func (i *interpreter) constrain(c value) {
	if s, ok := c.(*Sym); ok {
		i.assertPC(s.T)
	} else if b, ok := c.(bool); ok && !b && i.replayModel == nil {
		i.abort(OutInfeasible, "")
	}
}

func (i *interpreter) violation(kind, label, detail string, extra *smt.Term) {
	v := &Violation{Harness: i.harness, Label: label, Kind: kind, Detail: detail, Params: i.opts.Params, Preempt: i.opts.Preempt}
	v.Trace = append([]Decision{}, i.trace...)
	v.Sched = append([]string{}, i.schedLog...)
	if i.replayModel != nil {
		v.Model = i.replayModel
	} else {
		v.Model = i.modelFor(extra)
	}
	i.violations = append(i.violations, v)
}

// modelFor returns decimal values for all nondet variables under pc (+extra).
func (i *interpreter) modelFor(extra *smt.Term) map[string]string {
	out := map[string]string{}
	if len(i.nondets) == 0 {
		return out
	}
	var vars []*smt.Term
	for _, n := range i.nondets {
		vars = append(vars, n.t)
	}
	var m map[string]*big.Int
	var ok bool
	if extra != nil {
		m, ok = i.solver.Model(vars, extra)
	} else {
		m, ok = i.solver.Model(vars)
	}
	if !ok {
		return out
	}
	for _, n := range i.nondets {
		if v, ok := m[n.t.Name]; ok {
			out[n.name] = v.String()
		} else {
			out[n.name] = "0"
		}
	}
	return out
}

// assert checks a harness assertion. A failing side is recorded as a violation; the run continues on the
// holding side if that is feasible.
func (i *interpreter) assert(c value, label string) {
	switch c := c.(type) {
	case bool:
		if !c {
			i.violation("assert", label, "", nil)
			i.abort(OutViolation, label)
		}
	case *Sym:
		if i.replayModel != nil {
			if !i.evalBool(c.T) {
				i.violation("assert", label, "", nil)
				i.abort(OutViolation, label)
			}
			return
		}
		if d, ok := i.nextPrefix(); ok {
			if d.K != "as" {
				i.abort(OutInternal, "replay divergence: expected as, vector has "+d.K)
			}
			i.assertPC(c.T)
			i.record(d)
			return
		}
		nc := i.ctx.BNot(c.T)
		r := i.solver.Check(nc)
		switch r {
		case smt.Unsat:
			i.record(Decision{K: "as", N: 0})
			i.assertPC(c.T)
		case smt.Sat:
			i.violation("assert", label, "", nc)
			if i.check(c.T) == smt.Unsat {
				i.abort(OutViolation, label)
			}
			i.record(Decision{K: "as", N: 1})
			i.assertPC(c.T)
		default:
			i.unknowns++
			i.inconclusive = append(i.inconclusive, label)
			i.record(Decision{K: "as", N: 2})
			i.assertPC(c.T)
		}
	}
}

type nondet struct {
	name string
	t    *smt.Term
}

// newNondet creates (or, under a replay model, reads) a nondeterministic value of kind k.
func (i *interpreter) newNondet(name string, k int) value {
	panic("unused")
}

func sortedKeys[V any](m map[string]V) []string {
	ks := make([]string, 0, len(m))
	for k := range m {
		ks = append(ks, k)
	}
	sort.Strings(ks)
	return ks
}
