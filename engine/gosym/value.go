// Copyright 2013 The Go Authors. All rights reserved.
// Use of this source code is governed by a BSD-style
// license that can be found in the LICENSE.xtools file.
//
// This file started as golang.org/x/tools/go/ssa/interp/value.go (v0.29.0) and was changed for symbolic
// execution: scalars may be SMT terms, maps are insertion-ordered, channels are modelled.

package gosym

// Values
//
// All interpreter values are "boxed" in the empty interface, value.
// The range of possible dynamic types within value are:
//
// - bool, numbers (all built-in int/float/complex types are distinguished) -- concrete scalars
// - *Sym            --- a symbolic bool or integer (an SMT term plus its Go basic kind)
// - string          --- concrete string
// - *SymStr         --- string of concrete length with at least one symbolic byte
// - *omap           --- maps (insertion ordered)
// - *channel        --- channels (modelled, see sched.go)
// - []value         --- slices
// - iface           --- interfaces.
// - structure       --- structs.
// - array           --- arrays.
// - *value          --- pointers.
// - *ssa.Function, *ssa.Builtin, *closure --- functions.
// - tuple           --- multi-value results
// - iter            --- iterators from 'range' over map or string.
// - bad             --- poison for dead locals
// - rtype           --- reflect.Type stand-in
// - **deferred

import (
	"bytes"
	"fmt"
	"go/types"
	"math/big"
	"unsafe"

	"gosym/smt"

	"golang.org/x/tools/go/ssa"
	"golang.org/x/tools/go/types/typeutil"
)

type value interface{}

type tuple []value

type array []value

type iface struct {
	t types.Type // never an "untyped" type
	v value
}

type structure []value

// Sym is a symbolic scalar.
type Sym struct {
	T *smt.Term
	K types.BasicKind // Bool or an integer kind
}

// SymStr is a string whose bytes may be symbolic (uint8 or *Sym of kind Uint8). Length is concrete.
type SymStr struct {
	B []value
}

// For map, array, *array, slice, string or channel.
type iter interface {
	// next returns a Tuple (key, value, ok).
	next() tuple
}

type closure struct {
	Fn  *ssa.Function
	Env []value
}

type bad struct{}

type rtype struct {
	t types.Type
}

var hasher = typeutil.MakeHasher()

func kindInfo(k types.BasicKind) (w int, signed bool) {
	switch k {
	case types.Bool, types.UntypedBool:
		return 0, false
	case types.Int8:
		return 8, true
	case types.Int16:
		return 16, true
	case types.Int32, types.UntypedRune:
		return 32, true
	case types.Int64, types.Int, types.UntypedInt:
		return 64, true
	case types.Uint8:
		return 8, false
	case types.Uint16:
		return 16, false
	case types.Uint32:
		return 32, false
	case types.Uint64, types.Uint, types.Uintptr:
		return 64, false
	}
	panic(fmt.Sprintf("kindInfo: not an integer/bool kind: %v", k))
}

func kindOfValue(x value) (types.BasicKind, bool) {
	switch x := x.(type) {
	case *Sym:
		return x.K, true
	case bool:
		return types.Bool, true
	case int:
		return types.Int, true
	case int8:
		return types.Int8, true
	case int16:
		return types.Int16, true
	case int32:
		return types.Int32, true
	case int64:
		return types.Int64, true
	case uint:
		return types.Uint, true
	case uint8:
		return types.Uint8, true
	case uint16:
		return types.Uint16, true
	case uint32:
		return types.Uint32, true
	case uint64:
		return types.Uint64, true
	case uintptr:
		return types.Uintptr, true
	}
	return 0, false
}

// concreteOfKind builds the Go-native value of kind k from the (already normalised) unsigned bits v.
func concreteOfKind(k types.BasicKind, v *big.Int) value {
	u := v.Uint64()
	switch k {
	case types.Bool, types.UntypedBool:
		return v.Sign() != 0
	case types.Int, types.UntypedInt:
		return int(u)
	case types.Int8:
		return int8(u)
	case types.Int16:
		return int16(u)
	case types.Int32, types.UntypedRune:
		return int32(u)
	case types.Int64:
		return int64(u)
	case types.Uint:
		return uint(u)
	case types.Uint8:
		return uint8(u)
	case types.Uint16:
		return uint16(u)
	case types.Uint32:
		return uint32(u)
	case types.Uint64:
		return u
	case types.Uintptr:
		return uintptr(u)
	}
	panic(fmt.Sprintf("concreteOfKind: %v", k))
}

// mkSym wraps term t of kind k; constant terms become concrete Go values.
func mkSym(t *smt.Term, k types.BasicKind) value {
	if t.IsConst() {
		return concreteOfKind(k, t.Val)
	}
	return &Sym{T: t, K: k}
}

// termOf converts a bool/integer value (concrete or symbolic) to a term.
func (i *interpreter) termOf(x value) *smt.Term {
	c := i.ctx
	switch x := x.(type) {
	case *Sym:
		return x.T
	case bool:
		return c.Bool(x)
	case int:
		return c.BVI(int64(x), 64)
	case int8:
		return c.BVI(int64(x), 8)
	case int16:
		return c.BVI(int64(x), 16)
	case int32:
		return c.BVI(int64(x), 32)
	case int64:
		return c.BVI(x, 64)
	case uint:
		return c.BVU(uint64(x), 64)
	case uint8:
		return c.BVU(uint64(x), 8)
	case uint16:
		return c.BVU(uint64(x), 16)
	case uint32:
		return c.BVU(uint64(x), 32)
	case uint64:
		return c.BVU(x, 64)
	case uintptr:
		return c.BVU(uint64(x), 64)
	}
	panic(unsupported(fmt.Sprintf("termOf(%T)", x)))
}

func isSym(x value) bool {
	_, ok := x.(*Sym)
	return ok
}

// ---------------------------------------------------------------------------
// strings

func strLen(x value) int {
	switch x := x.(type) {
	case string:
		return len(x)
	case *SymStr:
		return len(x.B)
	}
	panic(fmt.Sprintf("strLen(%T)", x))
}

func strBytes(x value) []value {
	switch x := x.(type) {
	case string:
		r := make([]value, len(x))
		for i := 0; i < len(x); i++ {
			r[i] = x[i]
		}
		return r
	case *SymStr:
		return x.B
	}
	panic(fmt.Sprintf("strBytes(%T)", x))
}

// mkStr builds a string value from bytes (copying); concrete if every byte is.
func mkStr(b []value) value {
	conc := true
	for _, x := range b {
		if _, ok := x.(uint8); !ok {
			conc = false
			break
		}
	}
	if conc {
		bs := make([]byte, len(b))
		for i, x := range b {
			bs[i] = x.(uint8)
		}
		return string(bs)
	}
	nb := make([]value, len(b))
	copy(nb, b)
	return &SymStr{B: nb}
}

// ---------------------------------------------------------------------------
// ordered maps

type mentry struct {
	key, val value
	dead     bool
}

type omap struct {
	keyType types.Type
	entries []*mentry
	idx     map[value]*mentry // only for concrete keys of builtin-hashable types
	n       int
	dead    int
	nonIdx  int    // live entries not in idx (symbolic or aggregate keys)
	raceLoc *value // the map as one location of the race detector (concurrent map read/write is fatal in Go)
}

func (m *omap) loc() *value {
	if m.raceLoc == nil {
		m.raceLoc = new(value)
	}
	return m.raceLoc
}

func usesBuiltinMap(t types.Type) bool {
	switch t := t.(type) {
	case *types.Basic, *types.Chan, *types.Pointer:
		return true
	case *types.Named, *types.Alias:
		return usesBuiltinMap(t.Underlying())
	case *types.Interface, *types.Array, *types.Struct:
		return false
	case *types.TypeParam:
		return false
	}
	panic(fmt.Sprintf("invalid map key type: %T", t))
}

func makeMap(kt types.Type) *omap {
	return &omap{keyType: kt, idx: map[value]*mentry{}}
}

// indexable reports whether key k can live in the Go-map index.
func (m *omap) indexable(k value) bool {
	switch k.(type) {
	case bool, int, int8, int16, int32, int64, uint, uint8, uint16, uint32, uint64, uintptr, float32, float64,
		complex64, complex128, string, *value, *channel:
		return usesBuiltinMap(m.keyType)
	}
	return false
}

func (m *omap) len() int {
	if m == nil {
		return 0
	}
	return m.n
}

// find returns the entry for k. eq decides equality of two keys (may branch).
func (m *omap) find(i *interpreter, k value) *mentry {
	if m == nil {
		return nil
	}
	if m.indexable(k) {
		if e, ok := m.idx[k]; ok {
			return e
		}
		if m.nonIdx == 0 {
			return nil
		}
		for _, e := range m.entries {
			if e.dead || m.indexable(e.key) {
				continue
			}
			if i.truth(i.equalsV(m.keyType, k, e.key)) {
				return e
			}
		}
		return nil
	}
	for _, e := range m.entries {
		if e.dead {
			continue
		}
		if i.truth(i.equalsV(m.keyType, k, e.key)) {
			return e
		}
	}
	return nil
}

func (m *omap) insert(i *interpreter, k, v value) {
	if e := m.find(i, k); e != nil {
		e.val = v
		return
	}
	e := &mentry{key: k, val: v}
	m.entries = append(m.entries, e)
	m.n++
	if m.indexable(k) {
		m.idx[k] = e
	} else {
		m.nonIdx++
	}
}

func (m *omap) delete(i *interpreter, k value) {
	e := m.find(i, k)
	if e == nil {
		return
	}
	e.dead = true
	m.n--
	m.dead++
	if m.indexable(e.key) {
		delete(m.idx, e.key)
	} else {
		m.nonIdx--
	}
	if m.dead > 32 && m.dead > len(m.entries)/2 {
		live := make([]*mentry, 0, m.n)
		for _, e := range m.entries {
			if !e.dead {
				live = append(live, e)
			}
		}
		m.entries = live
		m.dead = 0
	}
}

func (m *omap) clear() {
	if m == nil {
		return
	}
	for _, e := range m.entries {
		e.dead = true
	}
	m.entries = nil
	m.idx = map[value]*mentry{}
	m.n, m.dead, m.nonIdx = 0, 0, 0
}

type mapIter struct {
	entries []*mentry
	pos     int
	m       *omap
}

func (it *mapIter) next() tuple {
	for {
		if it.pos >= len(it.entries) {
			// pick up entries appended since the iterator was created (same backing slice may have grown)
			if it.m != nil && len(it.m.entries) > len(it.entries) && it.m.dead == 0 {
				it.entries = it.m.entries
				continue
			}
			return tuple{false, nil, nil}
		}
		e := it.entries[it.pos]
		it.pos++
		if e.dead {
			continue
		}
		return tuple{true, e.key, e.val}
	}
}

// ---------------------------------------------------------------------------
// equality

// sameType is a nil-tolerant variant of types.Identical.
func sameType(x, y types.Type) bool {
	if x == nil {
		return y == nil
	}
	return y != nil && types.Identical(x, y)
}

// equalsV returns x == y for type t as a bool or a symbolic bool.
func (i *interpreter) equalsV(t types.Type, x, y value) value {
	switch x := x.(type) {
	case *Sym:
		return mkSym(i.ctx.Eq(x.T, i.termOf(y)), types.Bool)
	case string, *SymStr:
		return i.strEq(x, y)
	case structure:
		y := y.(structure)
		tStruct := t.Underlying().(*types.Struct)
		var acc value = true
		for k, n := 0, tStruct.NumFields(); k < n; k++ {
			f := tStruct.Field(k)
			if f.Name() == "_" {
				continue
			}
			acc = i.andV(acc, i.equalsV(f.Type(), x[k], y[k]))
			if acc == false {
				return false
			}
		}
		return acc
	case array:
		y := y.(array)
		tElt := t.Underlying().(*types.Array).Elem()
		if b, ok := tElt.Underlying().(*types.Basic); ok && b.Kind() == types.Uint8 && len(x) == len(y) && i.hash != nil {
			return i.seqEq([]value(x), []value(y))
		}
		var acc value = true
		for k := range x {
			acc = i.andV(acc, i.equalsV(tElt, x[k], y[k]))
			if acc == false {
				return false
			}
		}
		return acc
	case iface:
		y := y.(iface)
		if !sameType(x.t, y.t) {
			return false
		}
		if x.t == nil {
			return true
		}
		if !types.Comparable(x.t) {
			panic(fmt.Sprintf("runtime error: comparing uncomparable type %s", x.t))
		}
		return i.equalsV(x.t, x.v, y.v)
	case rtype:
		return types.Identical(x.t, y.(rtype).t)
	case *value:
		return x == y.(*value)
	case *channel:
		return x == y.(*channel)
	}
	if ys, ok := y.(*Sym); ok {
		return mkSym(i.ctx.Eq(i.termOf(x), ys.T), types.Bool)
	}
	switch x := x.(type) {
	case bool:
		return x == y.(bool)
	case int:
		return x == y.(int)
	case int8:
		return x == y.(int8)
	case int16:
		return x == y.(int16)
	case int32:
		return x == y.(int32)
	case int64:
		return x == y.(int64)
	case uint:
		return x == y.(uint)
	case uint8:
		return x == y.(uint8)
	case uint16:
		return x == y.(uint16)
	case uint32:
		return x == y.(uint32)
	case uint64:
		return x == y.(uint64)
	case uintptr:
		return x == y.(uintptr)
	case float32:
		return x == y.(float32)
	case float64:
		return x == y.(float64)
	case complex64:
		return x == y.(complex64)
	case complex128:
		return x == y.(complex128)
	case unsafe.Pointer:
		return x == y.(unsafe.Pointer)
	}
	panic(fmt.Sprintf("comparing uncomparable type %s (%T)", t, x))
}

func (i *interpreter) andV(x, y value) value {
	if xb, ok := x.(bool); ok {
		if !xb {
			return false
		}
		return y
	}
	if yb, ok := y.(bool); ok {
		if !yb {
			return false
		}
		return x
	}
	return mkSym(i.ctx.BAnd(x.(*Sym).T, y.(*Sym).T), types.Bool)
}

func (i *interpreter) orV(x, y value) value {
	if xb, ok := x.(bool); ok {
		if xb {
			return true
		}
		return y
	}
	if yb, ok := y.(bool); ok {
		if yb {
			return true
		}
		return x
	}
	return mkSym(i.ctx.BOr(x.(*Sym).T, y.(*Sym).T), types.Bool)
}

func (i *interpreter) notV(x value) value {
	if xb, ok := x.(bool); ok {
		return !xb
	}
	return mkSym(i.ctx.BNot(x.(*Sym).T), types.Bool)
}

func (i *interpreter) strEq(x, y value) value {
	if xs, ok := x.(string); ok {
		if ys, ok := y.(string); ok {
			return xs == ys
		}
	}
	if strLen(x) != strLen(y) {
		return false
	}
	return i.seqEq(strBytes(x), strBytes(y))
}

// bytesLess returns x < y (lexicographic) for byte sequences with possibly symbolic bytes.
func (i *interpreter) bytesLess(xb, yb []value) value {
	// less(k) = if k==len(x): k<len(y); if k==len(y): false; x[k]<y[k] || (x[k]==y[k] && less(k+1))
	n := len(xb)
	if len(yb) < n {
		n = len(yb)
	}
	var acc value = len(xb) < len(yb)
	for k := n - 1; k >= 0; k-- {
		lt := i.binopV(tokLSS, xb[k], yb[k])
		eq := i.equalsV(nil, xb[k], yb[k])
		acc = i.orV(lt, i.andV(eq, acc))
	}
	return acc
}

// ---------------------------------------------------------------------------
// load / store

// load returns the value of type T in *addr.
func load(T types.Type, addr *value) value {
	switch T := T.Underlying().(type) {
	case *types.Struct:
		v := (*addr).(structure)
		a := make(structure, len(v))
		for i := range a {
			a[i] = load(T.Field(i).Type(), &v[i])
		}
		return a
	case *types.Array:
		v := (*addr).(array)
		a := make(array, len(v))
		for i := range a {
			a[i] = load(T.Elem(), &v[i])
		}
		return a
	default:
		return *addr
	}
}

// store stores value v of type T into *addr.
func store(T types.Type, addr *value, v value) {
	switch T := T.Underlying().(type) {
	case *types.Struct:
		lhs := (*addr).(structure)
		rhs := v.(structure)
		for i := range lhs {
			store(T.Field(i).Type(), &lhs[i], rhs[i])
		}
	case *types.Array:
		lhs := (*addr).(array)
		rhs := v.(array)
		for i := range lhs {
			store(T.Elem(), &lhs[i], rhs[i])
		}
	default:
		*addr = v
	}
}

// copyVal makes an unaliased copy of an aggregate value (structs/arrays are value types).
func copyVal(v value) value {
	switch v := v.(type) {
	case structure:
		a := make(structure, len(v))
		for i := range v {
			a[i] = copyVal(v[i])
		}
		return a
	case array:
		a := make(array, len(v))
		for i := range v {
			a[i] = copyVal(v[i])
		}
		return a
	}
	return v
}

// ---------------------------------------------------------------------------
// printing

func writeValue(buf *bytes.Buffer, v value) {
	switch v := v.(type) {
	case nil, bool, int, int8, int16, int32, int64, uint, uint8, uint16, uint32, uint64, uintptr, float32, float64, complex64, complex128, string:
		fmt.Fprintf(buf, "%v", v)
	case *Sym:
		s := v.T.String()
		if len(s) > 80 {
			s = s[:80] + "…"
		}
		fmt.Fprintf(buf, "<sym %s>", s)
	case *SymStr:
		fmt.Fprintf(buf, "<symstr len=%d>", len(v.B))
	case *omap:
		buf.WriteString("map[")
		sep := ""
		if v != nil {
			for _, e := range v.entries {
				if e.dead {
					continue
				}
				buf.WriteString(sep)
				sep = " "
				writeValue(buf, e.key)
				buf.WriteString(":")
				writeValue(buf, e.val)
			}
		}
		buf.WriteString("]")
	case *channel:
		fmt.Fprintf(buf, "%p", v)
	case *value:
		if v == nil {
			buf.WriteString("<nil>")
		} else {
			fmt.Fprintf(buf, "%p", v)
		}
	case iface:
		fmt.Fprintf(buf, "(%s, ", v.t)
		writeValue(buf, v.v)
		buf.WriteString(")")
	case structure:
		buf.WriteString("{")
		for i, e := range v {
			if i > 0 {
				buf.WriteString(" ")
			}
			writeValue(buf, e)
		}
		buf.WriteString("}")
	case array:
		buf.WriteString("[")
		for i, e := range v {
			if i > 0 {
				buf.WriteString(" ")
			}
			writeValue(buf, e)
		}
		buf.WriteString("]")
	case []value:
		buf.WriteString("[")
		for i, e := range v {
			if i > 0 {
				buf.WriteString(" ")
			}
			writeValue(buf, e)
		}
		buf.WriteString("]")
	case *ssa.Function, *ssa.Builtin, *closure:
		fmt.Fprintf(buf, "%p", v)
	case rtype:
		buf.WriteString(v.t.String())
	case tuple:
		buf.WriteString("(")
		for i, e := range v {
			if i > 0 {
				buf.WriteString(", ")
			}
			writeValue(buf, e)
		}
		buf.WriteString(")")
	default:
		fmt.Fprintf(buf, "<%T>", v)
	}
}

func toString(v value) string {
	var b bytes.Buffer
	writeValue(&b, v)
	return b.String()
}

// ---------------------------------------------------------------------------
// string iterator (concrete strings only)

type stringIter struct {
	s string
	i int
}

func (it *stringIter) next() tuple {
	if it.i >= len(it.s) {
		return tuple{false, nil, nil}
	}
	var r rune
	var n int
	for k, c := range it.s[it.i:] {
		if k == 0 {
			r = c
			n = len(string(c))
			if c == 0xFFFD {
				n = 1
				// could be a real U+FFFD (3 bytes)
				if len(it.s[it.i:]) >= 3 && it.s[it.i:it.i+3] == "�" {
					n = 3
				}
			}
			break
		}
	}
	okv := tuple{true, it.i, r}
	it.i += n
	return okv
}
