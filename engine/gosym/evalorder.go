package gosym

import (
	"go/ast"
	"go/token"
	"sync"

	"golang.org/x/tools/go/ssa"
)

// Evaluation order of `return x, f(&x)`.
//
// The Go spec leaves the order between reading a variable and a function call in the same expression list
// unspecified. go/ssa reads the variable first, the gc compiler reads it after the calls of the statement
// (hive.go's stream.Read relies on that: `return result, binary.Read(reader, order, &result)`). To follow the
// compiler that actually builds the code under test, a load of a local variable that belongs to a return
// statement is postponed until the last call of that same return statement in the same block has returned.

type sinkInfo struct {
	after map[*ssa.UnOp]*ssa.Call // load -> call it is postponed behind
	calls map[*ssa.Call][]*ssa.UnOp
}

var sinkCache sync.Map // *ssa.Function -> *sinkInfo

func sinkFor(fn *ssa.Function) *sinkInfo {
	if v, ok := sinkCache.Load(fn); ok {
		return v.(*sinkInfo)
	}
	info := &sinkInfo{after: map[*ssa.UnOp]*ssa.Call{}, calls: map[*ssa.Call][]*ssa.UnOp{}}
	syn := fn.Syntax()
	if syn == nil && fn.Origin() != nil {
		syn = fn.Origin().Syntax()
	}
	if syn != nil {
		type rng struct{ lo, hi token.Pos }
		var rets []rng
		ast.Inspect(syn, func(n ast.Node) bool {
			switch n := n.(type) {
			case *ast.FuncLit:
				if n != syn {
					return false // nested closures are functions of their own
				}
			case *ast.ReturnStmt:
				if len(n.Results) > 1 {
					rets = append(rets, rng{n.Pos(), n.End()})
				}
			}
			return true
		})
		in := func(p token.Pos) int {
			for k, r := range rets {
				if p.IsValid() && p >= r.lo && p < r.hi {
					return k
				}
			}
			return -1
		}
		if len(rets) > 0 {
			for _, b := range fn.Blocks {
				for li, ins := range b.Instrs {
					ld, ok := ins.(*ssa.UnOp)
					if !ok || ld.Op != token.MUL {
						continue
					}
					if _, isAlloc := ld.X.(*ssa.Alloc); !isAlloc {
						continue
					}
					k := in(ld.Pos())
					if k < 0 {
						continue
					}
					// only a variable that is itself an operand of the result list: every use is the store into
					// the result slot or the return (a variable read for a call argument is read when that call is
					// evaluated)
					direct := true
					if refs := ld.Referrers(); refs != nil {
						for _, r := range *refs {
							switch r.(type) {
							case *ssa.Store, *ssa.Return, *ssa.DebugRef:
							default:
								direct = false
							}
						}
					}
					if !direct {
						continue
					}
					var last *ssa.Call
					for _, later := range b.Instrs[li+1:] {
						if c, ok := later.(*ssa.Call); ok && in(c.Pos()) == k {
							last = c
						}
					}
					if last != nil {
						info.after[ld] = last
						info.calls[last] = append(info.calls[last], ld)
					}
				}
			}
		}
	}
	sinkCache.Store(fn, info)
	return info
}
