package gosym

import (
	"fmt"
	"go/token"
	"go/types"
	"math/big"

	"gosym/smt"
)

const tokLSS = token.LSS

// unsupportedErr is raised (as a host panic) when the engine meets a construct it cannot execute.
type unsupportedErr struct{ what string }

func unsupported(what string) unsupportedErr { return unsupportedErr{what} }

func (i *interpreter) binopV(op token.Token, x, y value) value { return i.binop(op, nil, x, y) }

func (i *interpreter) iteV(c, a, b value) value {
	if cb, ok := c.(bool); ok {
		if cb {
			return a
		}
		return b
	}
	k, ok := kindOfValue(a)
	if !ok {
		// non-scalar: decide
		if i.truth(c) {
			return a
		}
		return b
	}
	return mkSym(i.ctx.Ite(c.(*Sym).T, i.termOf(a), i.termOf(b)), k)
}

// symBinop handles binary operators where at least one operand is symbolic.
func (i *interpreter) symBinop(op token.Token, x, y value) value {
	c := i.ctx
	kx, okx := kindOfValue(x)
	ky, oky := kindOfValue(y)
	if !okx || !oky {
		panic(unsupported(fmt.Sprintf("symbolic binop %s on %T, %T", op, x, y)))
	}
	tx, ty := i.termOf(x), i.termOf(y)
	if kx == types.Bool {
		switch op {
		case token.EQL:
			return mkSym(c.Eq(tx, ty), types.Bool)
		case token.NEQ:
			return mkSym(c.BNot(c.Eq(tx, ty)), types.Bool)
		case token.AND, token.LAND:
			return mkSym(c.BAnd(tx, ty), types.Bool)
		case token.OR, token.LOR:
			return mkSym(c.BOr(tx, ty), types.Bool)
		}
		panic(fmt.Sprintf("invalid symbolic bool op %s", op))
	}
	w, sg := kindInfo(kx)
	switch op {
	case token.SHL, token.SHR:
		wy, sgy := kindInfo(ky)
		if sgy {
			if i.truth(mkSym(c.Slt(ty, c.BVU(0, wy)), types.Bool)) {
				panic(runtimeError("negative shift amount"))
			}
		}
		var amt *smt.Term
		var inRange *smt.Term = c.True
		if wy <= w {
			amt = c.ZExt(ty, w-wy)
		} else {
			inRange = c.Ult(ty, c.BVU(uint64(w), wy))
			amt = c.Extract(ty, w-1, 0)
		}
		var r, over *smt.Term
		switch {
		case op == token.SHL:
			r, over = c.Shl(tx, amt), c.BVU(0, w)
		case sg:
			r, over = c.AShr(tx, amt), c.AShr(tx, c.BVU(uint64(w-1), w))
		default:
			r, over = c.LShr(tx, amt), c.BVU(0, w)
		}
		return mkSym(c.Ite(inRange, r, over), kx)
	}
	if tx.W != ty.W {
		panic(fmt.Sprintf("symBinop %s: width mismatch %d/%d (%T %T)", op, tx.W, ty.W, x, y))
	}
	switch op {
	case token.ADD:
		return mkSym(c.Add(tx, ty), kx)
	case token.SUB:
		return mkSym(c.Sub(tx, ty), kx)
	case token.MUL:
		return mkSym(c.Mul(tx, ty), kx)
	case token.QUO, token.REM:
		if i.truth(mkSym(c.Eq(ty, c.BVU(0, w)), types.Bool)) {
			panic(runtimeError("integer divide by zero"))
		}
		switch {
		case op == token.QUO && sg:
			return mkSym(c.SDiv(tx, ty), kx)
		case op == token.QUO:
			return mkSym(c.UDiv(tx, ty), kx)
		case sg:
			return mkSym(c.SRem(tx, ty), kx)
		default:
			return mkSym(c.URem(tx, ty), kx)
		}
	case token.AND:
		return mkSym(c.And(tx, ty), kx)
	case token.OR:
		return mkSym(c.Or(tx, ty), kx)
	case token.XOR:
		return mkSym(c.Xor(tx, ty), kx)
	case token.AND_NOT:
		return mkSym(c.And(tx, c.Not(ty)), kx)
	case token.EQL:
		return mkSym(c.Eq(tx, ty), types.Bool)
	case token.NEQ:
		return mkSym(c.BNot(c.Eq(tx, ty)), types.Bool)
	case token.LSS:
		if sg {
			return mkSym(c.Slt(tx, ty), types.Bool)
		}
		return mkSym(c.Ult(tx, ty), types.Bool)
	case token.LEQ:
		if sg {
			return mkSym(c.Sle(tx, ty), types.Bool)
		}
		return mkSym(c.Ule(tx, ty), types.Bool)
	case token.GTR:
		if sg {
			return mkSym(c.Slt(ty, tx), types.Bool)
		}
		return mkSym(c.Ult(ty, tx), types.Bool)
	case token.GEQ:
		if sg {
			return mkSym(c.Sle(ty, tx), types.Bool)
		}
		return mkSym(c.Ule(ty, tx), types.Bool)
	}
	panic(fmt.Sprintf("invalid symbolic binary op %s", op))
}

// strBinop handles string operators where an operand has symbolic bytes.
func (i *interpreter) strBinop(op token.Token, x, y value) value {
	switch op {
	case token.ADD:
		b := append(append([]value{}, strBytes(x)...), strBytes(y)...)
		return mkStr(b)
	case token.EQL:
		return i.strEq(x, y)
	case token.NEQ:
		return i.notV(i.strEq(x, y))
	case token.LSS:
		return i.bytesLess(strBytes(x), strBytes(y))
	case token.GTR:
		return i.bytesLess(strBytes(y), strBytes(x))
	case token.LEQ:
		return i.notV(i.bytesLess(strBytes(y), strBytes(x)))
	case token.GEQ:
		return i.notV(i.bytesLess(strBytes(x), strBytes(y)))
	}
	panic(fmt.Sprintf("invalid string op %s", op))
}

// runtimeError is a target-visible run-time panic (recoverable by the target program).
type runtimeError string

func (e runtimeError) Error() string { return "runtime error: " + string(e) }
func (e runtimeError) RuntimeError() {}

// truth decides a possibly symbolic boolean (a BR decision when symbolic).
func (i *interpreter) truth(c value) bool {
	switch c := c.(type) {
	case bool:
		return c
	case *Sym:
		return i.branch(c.T)
	}
	panic(fmt.Sprintf("truth(%T)", c))
}

// concInt returns a concrete int64 for integer x, concretising (a VAL decision) if symbolic.
func (i *interpreter) concInt(x value, what string) int64 {
	if s, ok := x.(*Sym); ok {
		v := i.concretize(s.T, what)
		w, sg := kindInfo(s.K)
		if sg {
			return signExtend(v, w)
		}
		return int64(v.Uint64())
	}
	return asInt64(x)
}

func signExtend(v *big.Int, w int) int64 {
	u := v.Uint64()
	if w < 64 && u&(1<<(uint(w)-1)) != 0 {
		u |= ^uint64(0) << uint(w)
	}
	return int64(u)
}

// concValue returns a concrete Go value for x of its own kind.
func (i *interpreter) concValue(x value, what string) value {
	if s, ok := x.(*Sym); ok {
		v := i.concretize(s.T, what)
		return concreteOfKind(s.K, v)
	}
	return x
}

// concString returns a concrete string, concretising symbolic bytes.
func (i *interpreter) concString(x value, what string) string {
	switch x := x.(type) {
	case string:
		return x
	case *SymStr:
		b := make([]byte, len(x.B))
		for k, e := range x.B {
			b[k] = i.concValue(e, what).(uint8)
		}
		return string(b)
	}
	panic(fmt.Sprintf("concString(%T)", x))
}
