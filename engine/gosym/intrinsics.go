package gosym

import (
	"fmt"
	"go/token"
	"go/types"
	"math"
	"math/big"
	"math/bits"
	"strings"

	"gosym/smt"

	"golang.org/x/tools/go/ssa"
)

type intrinsic func(fr *frame, args []value) value

// intrinsicFor resolves the intrinsic that replaces fn, if any (cached).
func (p *Program) intrinsicFor(fn *ssa.Function) intrinsic {
	if v, ok := p.intrCache.Load(fn); ok {
		if in, ok := v.(intrinsic); ok {
			return in
		}
		return nil
	}
	name := fn.String()
	if o := fn.Origin(); o != nil {
		name = o.String()
	}
	in, ok := intrinsics[name]
	if !ok && fn.Blocks == nil && fn.Synthetic == "" {
		// bodiless functions of modelled packages
		if k := strings.LastIndex(name, "."); k > 0 {
			pkg := name[:k]
			switch pkg {
			case "internal/race", "internal/msan", "internal/asan":
				in, ok = func(fr *frame, args []value) value { return nil }, true
			}
		}
	}
	if ok {
		p.intrCache.Store(fn, in)
		return in
	}
	p.intrCache.Store(fn, noIntrinsic{})
	return nil
}

var intrinsics map[string]intrinsic

func nop(fr *frame, args []value) value { return nil }

func init() {
	intrinsics = map[string]intrinsic{
		// ---- verifrt
		"verifrt.Nondet":        vNondet,
		"verifrt.Bool":          vBool,
		"verifrt.Choose":        vChoose,
		"verifrt.Param":         vParam,
		"verifrt.Assume":        func(fr *frame, a []value) value { fr.i.assume(a[0]); return nil },
		"verifrt.Assert":        func(fr *frame, a []value) value { fr.i.assert(a[0], fr.i.concString(a[1], "label")); return nil },
		"verifrt.Cover":         func(fr *frame, a []value) value { fr.i.cover[fr.i.concString(a[0], "label")] = true; return nil },
		"verifrt.Observe":       vObserve,
		"verifrt.Yield":         func(fr *frame, a []value) value { fr.i.schedPoint(fr.th, "Yield"); return nil },
		"verifrt.MustFinish":    func(fr *frame, a []value) value { fr.th.mustFinish = true; return nil },
		"verifrt.AllocBudget":   func(fr *frame, a []value) value { fr.i.allocBudget = asInt64(a[0]); return nil },
		"verifrt.ExactAdd":      func(fr *frame, a []value) value { return fr.i.exact(token.ADD, a[0], a[1]) },
		"verifrt.ExactSub":      func(fr *frame, a []value) value { return fr.i.exact(token.SUB, a[0], a[1]) },
		"verifrt.ExactMul":      func(fr *frame, a []value) value { return fr.i.exact(token.MUL, a[0], a[1]) },
		"verifrt.ExactDiv":      func(fr *frame, a []value) value { return fr.i.exact(token.QUO, a[0], a[1]) },
		"verifrt.ExactShl":      func(fr *frame, a []value) value { return fr.i.exact(token.SHL, a[0], a[1]) },
		"verifrt.ExactMulDiv64": vExactMulDiv64,
		"verifrt.Stamp":         func(fr *frame, a []value) value { fr.i.stamp++; return fr.i.stamp },
		"verifrt.GhostPut": func(fr *frame, a []value) value {
			fr.i.ghost()[fr.i.concString(a[0], "name")] = a[1]
			return nil
		},
		"verifrt.GhostGet": func(fr *frame, a []value) value {
			if v, ok := fr.i.ghost()[fr.i.concString(a[0], "name")]; ok {
				return v
			}
			return iface{}
		},
		"verifrt.GhostInt": func(fr *frame, a []value) value {
			if v, ok := fr.i.ghost()[fr.i.concString(a[0], "name")]; ok {
				if n, ok := v.(iface).v.(int); ok {
					return n
				}
			}
			return 0
		},
		"verifrt.GhostAdd": func(fr *frame, a []value) value {
			g := fr.i.ghost()
			name := fr.i.concString(a[0], "name")
			n := 0
			if v, ok := g[name]; ok {
				n, _ = v.(iface).v.(int)
			}
			n += a[1].(int)
			g[name] = iface{t: types.Typ[types.Int], v: n}
			return n
		},
		"verifrt.And":     func(fr *frame, a []value) value { return fr.i.andV(a[0], a[1]) },
		"verifrt.Or":      func(fr *frame, a []value) value { return fr.i.orV(a[0], a[1]) },
		"verifrt.Not":     func(fr *frame, a []value) value { return fr.i.notV(a[0]) },
		"verifrt.Implies": func(fr *frame, a []value) value { return fr.i.orV(fr.i.notV(a[0]), a[1]) },
		"verifrt.B2I":     func(fr *frame, a []value) value { return fr.i.iteV(a[0], int(1), int(0)) },
		"verifrt.IteInt":  func(fr *frame, a []value) value { return fr.i.iteV(a[0], a[1], a[2]) },
		"verifrt.IteU64":  func(fr *frame, a []value) value { return fr.i.iteV(a[0], a[1], a[2]) },
		"verifrt.IteByte": func(fr *frame, a []value) value { return fr.i.iteV(a[0], a[1], a[2]) },

		// ---- fmt / errors
		"fmt.Errorf":   fmtErrorf,
		"fmt.Sprintf":  func(fr *frame, a []value) value { return fr.i.sprintf(fr, a[0], a[1].([]value)) },
		"fmt.Sprint":   func(fr *frame, a []value) value { return fr.i.sprint(fr, a[0].([]value), "") },
		"fmt.Sprintln": func(fr *frame, a []value) value { return fr.i.sprint(fr, a[0].([]value), " ") },
		"fmt.Println":  func(fr *frame, a []value) value { return tuple{0, iface{}} },
		"fmt.Printf":   func(fr *frame, a []value) value { return tuple{0, iface{}} },
		"fmt.Print":    func(fr *frame, a []value) value { return tuple{0, iface{}} },
		"fmt.Fprintf":  func(fr *frame, a []value) value { return tuple{0, iface{}} },
		"fmt.Fprintln": func(fr *frame, a []value) value { return tuple{0, iface{}} },
		"fmt.Fprint":   func(fr *frame, a []value) value { return tuple{0, iface{}} },
		"errors.Is":    func(fr *frame, a []value) value { return fr.i.errorsIs(fr, a[0].(iface), a[1].(iface)) },
		"errors.As":    errorsAs,
		"errors.New":   errorsNew,

		// ---- sync
		"(*sync.Mutex).Lock":               func(fr *frame, a []value) value { fr.i.mutexLock(fr.th, a[0].(*value)); return nil },
		"(*sync.Mutex).Unlock":             func(fr *frame, a []value) value { fr.i.mutexUnlock(fr.th, a[0].(*value)); return nil },
		"(*sync.Mutex).TryLock":            func(fr *frame, a []value) value { return fr.i.mutexTryLock(fr.th, a[0].(*value)) },
		"(*sync.RWMutex).Lock":             func(fr *frame, a []value) value { fr.i.rwLock(fr.th, a[0].(*value)); return nil },
		"(*sync.RWMutex).Unlock":           func(fr *frame, a []value) value { fr.i.rwUnlock(fr.th, a[0].(*value)); return nil },
		"(*sync.RWMutex).RLock":            func(fr *frame, a []value) value { fr.i.rwRLock(fr.th, a[0].(*value)); return nil },
		"(*sync.RWMutex).RUnlock":          func(fr *frame, a []value) value { fr.i.rwRUnlock(fr.th, a[0].(*value)); return nil },
		"(*sync.RWMutex).TryLock":          func(fr *frame, a []value) value { return fr.i.rwTryLock(fr.th, a[0].(*value)) },
		"(*sync.RWMutex).TryRLock":         func(fr *frame, a []value) value { return fr.i.rwTryRLock(fr.th, a[0].(*value)) },
		"(*sync.WaitGroup).Add":            func(fr *frame, a []value) value { fr.i.wgAdd(fr.th, a[0].(*value), asInt64(a[1])); return nil },
		"(*sync.WaitGroup).Done":           func(fr *frame, a []value) value { fr.i.wgAdd(fr.th, a[0].(*value), -1); return nil },
		"(*sync.WaitGroup).Wait":           func(fr *frame, a []value) value { fr.i.wgWait(fr.th, a[0].(*value)); return nil },
		"(*sync.Once).Do":                  func(fr *frame, a []value) value { fr.i.onceDo(fr, a[0].(*value), a[1]); return nil },
		"(*sync.Cond).Wait":                func(fr *frame, a []value) value { fr.i.condWait(fr, a[0].(*value)); return nil },
		"(*sync.Cond).Signal":              func(fr *frame, a []value) value { fr.i.condSignal(fr.th, a[0].(*value)); return nil },
		"(*sync.Cond).Broadcast":           func(fr *frame, a []value) value { fr.i.condBroadcast(fr.th, a[0].(*value)); return nil },
		"(*sync.Pool).Get":                 syncPoolGet,
		"(*sync.Pool).Put":                 nop,
		"sync.runtime_registerPoolCleanup": nop,

		// ---- runtime
		"runtime.Gosched":      func(fr *frame, a []value) value { fr.i.schedPoint(fr.th, "Gosched"); return nil },
		"runtime.NumCPU":       func(fr *frame, a []value) value { return 2 },
		"runtime.GOMAXPROCS":   func(fr *frame, a []value) value { return 2 },
		"runtime.KeepAlive":    nop,
		"runtime.SetFinalizer": nop,
		"runtime.GC":           nop,
		"runtime.Callers":      func(fr *frame, a []value) value { return 0 },
		"runtime.Caller":       func(fr *frame, a []value) value { return tuple{uintptr(0), "", 0, false} },

		// ---- math/bits (by contract, as bit-vector terms when symbolic)
		"math/bits.Mul64": bitsMul64,
		"math/bits.Div64": bitsDiv64,
		"math/bits.Add64": bitsAdd64,
		"math/bits.Sub64": bitsSub64,

		// ---- internal/bytealg
		"internal/bytealg.Equal":           func(fr *frame, a []value) value { return fr.i.bytesEq(a[0].([]value), a[1].([]value)) },
		"internal/bytealg.Compare":         func(fr *frame, a []value) value { return fr.i.bytesCompare(a[0].([]value), a[1].([]value)) },
		"internal/bytealg.CompareString":   func(fr *frame, a []value) value { return fr.i.bytesCompare(strBytes(a[0]), strBytes(a[1])) },
		"internal/bytealg.IndexByte":       func(fr *frame, a []value) value { return fr.i.indexByte(a[0].([]value), a[1]) },
		"internal/bytealg.IndexByteString": func(fr *frame, a []value) value { return fr.i.indexByte(strBytes(a[0]), a[1]) },
		"internal/bytealg.Count":           func(fr *frame, a []value) value { return fr.i.countByte(a[0].([]value), a[1]) },
		"internal/bytealg.CountString":     func(fr *frame, a []value) value { return fr.i.countByte(strBytes(a[0]), a[1]) },
		"internal/bytealg.IndexString": func(fr *frame, a []value) value {
			hs, ok1 := concreteBytes(strBytes(a[0]))
			nd, ok2 := concreteBytes(strBytes(a[1]))
			if !ok1 || !ok2 {
				panic(unsupported("strings.Index on symbolic strings"))
			}
			return strings.Index(string(hs), string(nd))
		},
		"internal/bytealg.Index": func(fr *frame, a []value) value {
			hs, ok1 := concreteBytes(a[0].([]value))
			nd, ok2 := concreteBytes(a[1].([]value))
			if !ok1 || !ok2 {
				panic(unsupported("bytes.Index on symbolic bytes"))
			}
			return strings.Index(string(hs), string(nd))
		},
		"math.Float64bits":            func(fr *frame, a []value) value { return math.Float64bits(a[0].(float64)) },
		"math.Float64frombits":        func(fr *frame, a []value) value { return math.Float64frombits(a[0].(uint64)) },
		"math.Float32bits":            func(fr *frame, a []value) value { return math.Float32bits(a[0].(float32)) },
		"math.Float32frombits":        func(fr *frame, a []value) value { return math.Float32frombits(a[0].(uint32)) },
		"internal/stringslite.Clone":  func(fr *frame, a []value) value { return a[0] },
		"strings.Clone":               func(fr *frame, a []value) value { return a[0] },
		"internal/bytealg.MakeNoZero": func(fr *frame, a []value) value { return makeBytes(int(asInt64(a[0]))) },
		"strings.HasPrefix":           func(fr *frame, a []value) value { return fr.i.hasPrefix(strBytes(a[0]), strBytes(a[1])) },
		"strings.HasSuffix":           func(fr *frame, a []value) value { return fr.i.hasSuffix(strBytes(a[0]), strBytes(a[1])) },
		"bytes.HasPrefix":             func(fr *frame, a []value) value { return fr.i.hasPrefix(a[0].([]value), a[1].([]value)) },
		"bytes.HasSuffix":             func(fr *frame, a []value) value { return fr.i.hasSuffix(a[0].([]value), a[1].([]value)) },
		"bytes.Equal":                 func(fr *frame, a []value) value { return fr.i.bytesEq(a[0].([]value), a[1].([]value)) },
		"bytes.Compare":               func(fr *frame, a []value) value { return fr.i.bytesCompare(a[0].([]value), a[1].([]value)) },
		"strings.Compare":             func(fr *frame, a []value) value { return fr.i.bytesCompare(strBytes(a[0]), strBytes(a[1])) },

		// ---- strings.Builder (uses unsafe)
		"(*strings.Builder).WriteString": sbWriteString,
		"(*strings.Builder).WriteByte":   sbWriteByte,
		"(*strings.Builder).WriteRune":   sbWriteRune,
		"(*strings.Builder).Write":       sbWrite,
		"(*strings.Builder).String":      sbString,
		"(*strings.Builder).Len":         func(fr *frame, a []value) value { return len(sbBuf(a[0])) },
		"(*strings.Builder).Cap":         func(fr *frame, a []value) value { return cap(sbBuf(a[0])) },
		"(*strings.Builder).Grow":        nop,
		"(*strings.Builder).Reset":       func(fr *frame, a []value) value { (*a[0].(*value)).(structure)[1] = []value(nil); return nil },

		// ---- sort.Slice (uses reflectlite)
		"sort.Slice":       sortSlice,
		"sort.SliceStable": sortSlice,

		// ---- unsafe-ish helpers in the anchored code
		"github.com/iotaledger/hive.go/constraints.IsInterfaceNil":   isInterfaceNil,
		"github.com/iotaledger/hive.go/runtime/event.IsInterfaceNil": isInterfaceNil,
		"github.com/iotaledger/hive.go/stringify.IsInterfaceNil":     isInterfaceNil,
		"github.com/iotaledger/hive.go/ds/reactive.isNil":            isInterfaceNil,
		"github.com/iotaledger/hive.go/lo.IsNil":                     nil, // filled below if needed
	}
	delete(intrinsics, "github.com/iotaledger/hive.go/lo.IsNil")
	registerAtomics()
	registerHash()
	registerReflect()
	registerTime()
}

// ---------------------------------------------------------------------------
// verifrt

func (i *interpreter) nondetName(base string) string {
	n := i.nondetCount[base]
	i.nondetCount[base]++
	if n == 0 {
		return base
	}
	return fmt.Sprintf("%s#%d", base, n)
}

func smtName(s string) string {
	var sb strings.Builder
	sb.WriteString("v_")
	for _, r := range s {
		switch {
		case r >= 'a' && r <= 'z', r >= 'A' && r <= 'Z', r >= '0' && r <= '9', r == '_':
			sb.WriteRune(r)
		default:
			fmt.Fprintf(&sb, "_%x_", r)
		}
	}
	return sb.String()
}

func (i *interpreter) nondetOf(base string, k types.BasicKind) value {
	name := i.nondetName(base)
	w, _ := kindInfo(k)
	if i.replayModel != nil {
		v := new(big.Int)
		if s, ok := i.replayModel[name]; ok {
			v.SetString(s, 10)
		}
		if w > 0 {
			m := new(big.Int).Lsh(big.NewInt(1), uint(w))
			v.Mod(v, m)
		}
		return concreteOfKind(k, v)
	}
	// the sort is part of the SMT name: one long-lived solver sees the variables of many paths, and the same
	// harness-level name may be an 8-bit value on one path and a boolean on another
	t := i.ctx.Var(fmt.Sprintf("%s_w%d", smtName(name), w), w)
	i.nondets = append(i.nondets, nondet{name, t})
	return &Sym{T: t, K: k}
}

func resultKind(fr *frame) types.BasicKind {
	r := fr.fn.Signature.Results().At(0).Type().Underlying().(*types.Basic)
	return r.Kind()
}

func vNondet(fr *frame, a []value) value {
	return fr.i.nondetOf(fr.i.concString(a[0], "name"), resultKind(fr))
}

func vBool(fr *frame, a []value) value {
	return fr.i.nondetOf(fr.i.concString(a[0], "name"), types.Bool)
}

func vChoose(fr *frame, a []value) value {
	n := int(asInt64(a[1]))
	if n <= 0 {
		fr.i.abort(OutInfeasible, "")
	}
	return fr.i.choose("ch", n, fr.i.concString(a[0], "name"))
}

func vParam(fr *frame, a []value) value {
	name := fr.i.concString(a[0], "name")
	if v, ok := fr.i.opts.Params[name]; ok {
		return v
	}
	return a[1]
}

func vObserve(fr *frame, a []value) value {
	i := fr.i
	if len(i.obs) < 50 {
		v := a[1]
		if iv, ok := v.(iface); ok && iv.t != nil {
			v = iv.v // like %v natively
		}
		i.obs = append(i.obs, fmt.Sprintf("%s=%s", i.concString(a[0], "label"), toString(v)))
	}
	return nil
}

// exact computes the mathematically exact result of x op y at double width and whether it fits the type.
func (i *interpreter) exact(op token.Token, x, y value) value {
	k, _ := kindOfValue(x)
	w, sg := kindInfo(k)
	c := i.ctx
	ext := func(t *smt.Term, to int, s bool) *smt.Term { return c.Resize(t, to, s) }
	tx := i.termOf(x)
	ty := i.termOf(y)
	var wide *smt.Term
	W := 2 * w
	switch op {
	case token.ADD:
		wide = c.Add(ext(tx, W, sg), ext(ty, W, sg))
	case token.SUB:
		wide = c.Sub(ext(tx, W, sg), ext(ty, W, sg))
	case token.MUL:
		wide = c.Mul(ext(tx, W, sg), ext(ty, W, sg))
	case token.QUO:
		// The truncated quotient at width w is SMT-LIB's bvsdiv/bvudiv; the only quotient that is not
		// representable is MinInt / -1 (a double-width divider would make the query an equivalence of two
		// division circuits, which no back end closes at 32/64 bit).
		if sg {
			minInt := c.Shl(c.BVU(1, w), c.BVU(uint64(w-1), w))
			over := c.BAnd(c.Eq(tx, minInt), c.Eq(ty, c.Not(c.BVU(0, w))))
			return tuple{mkSym(c.SDiv(tx, ty), k), mkSym(c.BNot(over), types.Bool)}
		}
		return tuple{mkSym(c.UDiv(tx, ty), k), true}
	case token.SHL:
		// y is a uint8 shift count: value * 2^s at width w+256 would be exact; use w+256 bits
		W = w + 256
		wide = c.Shl(ext(tx, W, sg), c.ZExt(ty, W-8))
	}
	res := c.Extract(wide, w-1, 0)
	var fitsT *smt.Term
	if sg {
		fitsT = c.Eq(c.SExt(res, W-w), wide)
	} else {
		fitsT = c.Eq(c.ZExt(res, W-w), wide)
	}
	return tuple{mkSym(res, k), mkSym(fitsT, types.Bool)}
}

func vExactMulDiv64(fr *frame, a []value) value {
	i := fr.i
	c := i.ctx
	x, y, d := c.ZExt(i.termOf(a[0]), 64), c.ZExt(i.termOf(a[1]), 64), c.ZExt(i.termOf(a[2]), 64)
	q := c.UDiv(c.Mul(x, y), d)
	lo := c.Extract(q, 63, 0)
	ok := c.Eq(c.Extract(q, 127, 64), c.BVU(0, 64))
	return tuple{mkSym(lo, types.Uint64), mkSym(ok, types.Bool)}
}

// ---------------------------------------------------------------------------
// fmt / errors

func (i *interpreter) fmtArg(fr *frame, v value) string {
	switch v := v.(type) {
	case iface:
		if v.t == nil {
			return "<nil>"
		}
		// error or Stringer
		if types.Implements(v.t, errorIface) {
			if r, ok := i.callMethod(fr, v.t, v.v, nil, "Error"); ok {
				return i.fmtArg(fr, r)
			}
		}
		return i.fmtArg(fr, v.v)
	case string:
		return v
	case *SymStr:
		return "<symbolic string>"
	case *Sym:
		return "<symbolic>"
	case []value:
		var sb strings.Builder
		sb.WriteString("[")
		for k, e := range v {
			if k > 0 {
				sb.WriteString(" ")
			}
			sb.WriteString(i.fmtArg(fr, e))
		}
		sb.WriteString("]")
		return sb.String()
	case bool, int, int8, int16, int32, int64, uint, uint8, uint16, uint32, uint64, uintptr, float32, float64:
		return fmt.Sprint(v)
	}
	return toString(v)
}

var errorIface = types.Universe.Lookup("error").Type().Underlying().(*types.Interface)

// sprintf is an opaque model of fmt.Sprintf: verbs are replaced by a simple rendering of the operands.
func (i *interpreter) sprintf(fr *frame, format value, args []value) value {
	f := i.concString(format, "format")
	var sb strings.Builder
	ai := 0
	for k := 0; k < len(f); k++ {
		if f[k] != '%' {
			sb.WriteByte(f[k])
			continue
		}
		k++
		for k < len(f) && strings.ContainsRune("+-# 0123456789.*[]", rune(f[k])) {
			k++
		}
		if k >= len(f) {
			break
		}
		if f[k] == '%' {
			sb.WriteByte('%')
			continue
		}
		if ai < len(args) {
			sb.WriteString(i.fmtArg(fr, args[ai]))
			ai++
		} else {
			sb.WriteString("%!" + string(f[k]) + "(MISSING)")
		}
	}
	return sb.String()
}

func (i *interpreter) sprint(fr *frame, args []value, sep string) value {
	var sb strings.Builder
	for k, a := range args {
		if k > 0 {
			sb.WriteString(sep)
		}
		sb.WriteString(i.fmtArg(fr, a))
	}
	return sb.String()
}

func (i *interpreter) namedType(pkg, name string) types.Type {
	p := i.prog.ImportedPackage(pkg)
	if p == nil {
		panic(unsupported("package not loaded: " + pkg))
	}
	return p.Type(name).Object().Type()
}

func errorsNew(fr *frame, a []value) value {
	i := fr.i
	t := types.NewPointer(i.namedType("errors", "errorString"))
	var cell value = structure{a[0]}
	return iface{t: t, v: &cell}
}

// fmtErrorf models fmt.Errorf: the result wraps exactly the %w operands.
func fmtErrorf(fr *frame, a []value) value {
	i := fr.i
	f := i.concString(a[0], "format")
	args := a[1].([]value)
	msg := i.sprintf(fr, a[0], args)
	var wrapped []value
	ai := 0
	for k := 0; k < len(f); k++ {
		if f[k] != '%' {
			continue
		}
		k++
		for k < len(f) && strings.ContainsRune("+-# 0123456789.*[]", rune(f[k])) {
			k++
		}
		if k >= len(f) {
			break
		}
		if f[k] == '%' {
			continue
		}
		if f[k] == 'w' && ai < len(args) {
			if e, ok := args[ai].(iface); ok && e.t != nil && types.Implements(e.t, errorIface) {
				wrapped = append(wrapped, e)
			}
		}
		ai++
	}
	switch len(wrapped) {
	case 0:
		t := types.NewPointer(i.namedType("fmt", "wrapError")) // any error type will do; keep it simple
		_ = t
		return errorsNew(fr, []value{msg})
	case 1:
		t := types.NewPointer(i.namedType("fmt", "wrapError"))
		var cell value = structure{msg, wrapped[0]}
		return iface{t: t, v: &cell}
	default:
		t := types.NewPointer(i.namedType("fmt", "wrapErrors"))
		var cell value = structure{msg, append([]value{}, wrapped...)}
		return iface{t: t, v: &cell}
	}
}

// errorsIs implements errors.Is natively (the std version needs reflectlite).
func (i *interpreter) errorsIs(fr *frame, err, target iface) value {
	if err.t == nil || target.t == nil {
		return err.t == nil && target.t == nil
	}
	comparable := types.Comparable(target.t)
	return i.errIs(fr, err, target, comparable, 0)
}

func (i *interpreter) errIs(fr *frame, err, target iface, comparable bool, depth int) bool {
	if depth > 100 {
		i.abort(OutBound, "errors.Is chain deeper than 100")
	}
	for {
		if comparable && sameType(err.t, target.t) {
			if i.truth(i.equalsV(err.t, err.v, target.v)) {
				return true
			}
		}
		if m := i.findMethod(err.t, "Is"); m != nil && m.Signature.Params().Len() == 1 {
			if r, ok := call(i, fr, token.NoPos, m, []value{err.v, target}).(bool); ok && r {
				return true
			}
		}
		m := i.findMethod(err.t, "Unwrap")
		if m == nil {
			return false
		}
		r := call(i, fr, token.NoPos, m, []value{err.v})
		switch r := r.(type) {
		case iface:
			if r.t == nil {
				return false
			}
			err = r
		case []value:
			for _, e := range r {
				if e := e.(iface); e.t != nil && i.errIs(fr, e, target, comparable, depth+1) {
					return true
				}
			}
			return false
		default:
			return false
		}
	}
}

func errorsAs(fr *frame, a []value) value {
	i := fr.i
	err := a[0].(iface)
	tgt := a[1].(iface)
	if tgt.t == nil {
		panic(targetPanicString(i, "errors: target cannot be nil"))
	}
	pt, ok := tgt.t.Underlying().(*types.Pointer)
	if !ok {
		panic(targetPanicString(i, "errors: target must be a non-nil pointer"))
	}
	want := pt.Elem()
	cell := tgt.v.(*value)
	var walk func(e iface, depth int) bool
	walk = func(e iface, depth int) bool {
		for e.t != nil && depth < 100 {
			if it, isI := want.Underlying().(*types.Interface); isI {
				if types.Implements(e.t, it) {
					*cell = e
					return true
				}
			} else if types.Identical(e.t, want) {
				*cell = e.v
				return true
			}
			m := i.findMethod(e.t, "Unwrap")
			if m == nil {
				return false
			}
			r := call(i, fr, token.NoPos, m, []value{e.v})
			switch r := r.(type) {
			case iface:
				e = r
			case []value:
				for _, x := range r {
					if walk(x.(iface), depth+1) {
						return true
					}
				}
				return false
			default:
				return false
			}
			depth++
		}
		return false
	}
	return walk(err, 0)
}

// isInterfaceNil models the `(*[2]uintptr)(unsafe.Pointer(&param))[1] == 0` idiom: the data word of an
// interface is zero exactly for a nil interface or a nil value of a pointer-shaped type (pointer, map, chan,
// func); slices and other multi-word values are boxed, so their data word is never zero.
func isInterfaceNil(fr *frame, a []value) value {
	it := a[0].(iface)
	if it.t == nil {
		return true
	}
	switch v := it.v.(type) {
	case *value:
		return v == nil
	case *omap:
		return v == nil
	case *channel:
		return v == nil
	case *ssa.Function:
		return v == nil
	case *closure:
		return v == nil
	}
	return false
}

func syncPoolGet(fr *frame, a []value) value {
	st := (*a[0].(*value)).(structure)
	// New is the last field
	nf := st[len(st)-1]
	switch f := nf.(type) {
	case *ssa.Function:
		if f == nil {
			return iface{}
		}
	}
	return call(fr.i, fr, token.NoPos, nf, nil)
}

// ---------------------------------------------------------------------------
// math/bits

func bitsMul64(fr *frame, a []value) value {
	i := fr.i
	if !isSym(a[0]) && !isSym(a[1]) {
		hi, lo := bits.Mul64(a[0].(uint64), a[1].(uint64))
		return tuple{hi, lo}
	}
	c := i.ctx
	p := c.Mul(c.ZExt(i.termOf(a[0]), 64), c.ZExt(i.termOf(a[1]), 64))
	return tuple{mkSym(c.Extract(p, 127, 64), types.Uint64), mkSym(c.Extract(p, 63, 0), types.Uint64)}
}

func bitsDiv64(fr *frame, a []value) value {
	i := fr.i
	c := i.ctx
	hi, lo, y := i.termOf(a[0]), i.termOf(a[1]), i.termOf(a[2])
	if i.truth(mkSym(c.Eq(y, c.BVU(0, 64)), types.Bool)) {
		panic(runtimeError("integer divide by zero"))
	}
	if i.truth(mkSym(c.Ule(y, hi), types.Bool)) {
		panic(runtimeError("integer overflow"))
	}
	n := c.Concat(hi, lo)
	y128 := c.ZExt(y, 64)
	q := c.UDiv(n, y128)
	r := c.URem(n, y128)
	return tuple{mkSym(c.Extract(q, 63, 0), types.Uint64), mkSym(c.Extract(r, 63, 0), types.Uint64)}
}

func bitsAdd64(fr *frame, a []value) value {
	i := fr.i
	c := i.ctx
	s := c.Add(c.Add(c.ZExt(i.termOf(a[0]), 1), c.ZExt(i.termOf(a[1]), 1)), c.ZExt(i.termOf(a[2]), 1))
	return tuple{mkSym(c.Extract(s, 63, 0), types.Uint64), mkSym(c.ZExt(c.Extract(s, 64, 64), 63), types.Uint64)}
}

func bitsSub64(fr *frame, a []value) value {
	i := fr.i
	c := i.ctx
	s := c.Sub(c.Sub(c.ZExt(i.termOf(a[0]), 1), c.ZExt(i.termOf(a[1]), 1)), c.ZExt(i.termOf(a[2]), 1))
	return tuple{mkSym(c.Extract(s, 63, 0), types.Uint64), mkSym(c.ZExt(c.Extract(s, 64, 64), 63), types.Uint64)}
}

// ---------------------------------------------------------------------------
// byte-sequence summaries

func makeBytes(n int) []value {
	b := make([]value, n)
	for k := range b {
		b[k] = uint8(0)
	}
	return b
}

func (i *interpreter) bytesEq(x, y []value) value {
	if len(x) != len(y) {
		return false
	}
	return i.seqEq(x, y)
}

// bytesCompare returns -1/0/+1 as an int value (symbolic when the bytes are).
func (i *interpreter) bytesCompare(x, y []value) value {
	lt := i.bytesLess(x, y)
	gt := i.bytesLess(y, x)
	return i.iteV(lt, int(-1), i.iteV(gt, int(1), int(0)))
}

func (i *interpreter) hasPrefix(s, p []value) value {
	if len(p) > len(s) {
		return false
	}
	return i.bytesEq(s[:len(p)], p)
}

func (i *interpreter) hasSuffix(s, p []value) value {
	if len(p) > len(s) {
		return false
	}
	return i.bytesEq(s[len(s)-len(p):], p)
}

func (i *interpreter) indexByte(s []value, b value) value {
	var acc value = int(-1)
	for k := len(s) - 1; k >= 0; k-- {
		acc = i.iteV(i.equalsV(nil, s[k], b), int(k), acc)
	}
	return acc
}

func (i *interpreter) countByte(s []value, b value) value {
	var acc value = int(0)
	for k := range s {
		acc = i.binopV(token.ADD, acc, i.iteV(i.equalsV(nil, s[k], b), int(1), int(0)))
	}
	return acc
}

// ---------------------------------------------------------------------------
// strings.Builder: struct { addr *Builder; buf []byte }

func sbBuf(recv value) []value {
	b, _ := (*recv.(*value)).(structure)[1].([]value)
	return b
}

func sbSet(recv value, b []value) { (*recv.(*value)).(structure)[1] = b }

func sbWriteString(fr *frame, a []value) value {
	s := strBytes(a[1])
	sbSet(a[0], append(sbBuf(a[0]), s...))
	return tuple{len(s), iface{}}
}

func sbWrite(fr *frame, a []value) value {
	s := a[1].([]value)
	sbSet(a[0], append(sbBuf(a[0]), s...))
	return tuple{len(s), iface{}}
}

func sbWriteByte(fr *frame, a []value) value {
	sbSet(a[0], append(sbBuf(a[0]), a[1]))
	return iface{}
}

func sbWriteRune(fr *frame, a []value) value {
	r := a[1].(int32)
	s := string(r)
	sbSet(a[0], append(sbBuf(a[0]), strBytes(s)...))
	return tuple{len(s), iface{}}
}

func sbString(fr *frame, a []value) value { return mkStr(sbBuf(a[0])) }

// ---------------------------------------------------------------------------
// sort.Slice: insertion sort driven by the (interpreted) less function

func sortSlice(fr *frame, a []value) value {
	i := fr.i
	it := a[0].(iface)
	s, ok := it.v.([]value)
	if !ok {
		panic(unsupported("sort.Slice on non-slice"))
	}
	less := a[1]
	// less takes indices, so elements must be in place while comparing: insertion sort by adjacent swaps
	for k := 1; k < len(s); k++ {
		for j := k; j > 0; j-- {
			r := call(i, fr, token.NoPos, less, []value{j, j - 1})
			if !i.truth(r) {
				break
			}
			s[j], s[j-1] = s[j-1], s[j]
		}
	}
	return nil
}

// findMethod looks up an exported method by name in the method set of t (nil if absent).
func (i *interpreter) findMethod(t types.Type, name string) *ssa.Function {
	ms := i.prog.MethodSets.MethodSet(t)
	for k := 0; k < ms.Len(); k++ {
		sel := ms.At(k)
		if sel.Obj().Name() == name {
			return i.prog.MethodValue(sel)
		}
	}
	return nil
}

// ---------------------------------------------------------------------------
// math/rand: arbitrary values in range

func init() {
	randIntn := func(fr *frame, a []value) value {
		i := fr.i
		n := a[len(a)-1]
		if nn, ok := n.(int); ok && nn <= 0 {
			panic(targetPanicString(i, "invalid argument to Intn"))
		}
		k, _ := kindOfValue(n)
		v := i.nondetOf("rand", k)
		i.constrain(i.binopV(token.GEQ, v, i.zeroLike(n)))
		i.constrain(i.binopV(token.LSS, v, n))
		return v
	}
	for _, name := range []string{"math/rand.Intn", "math/rand.Int63n", "math/rand.Int31n", "(*math/rand.Rand).Intn", "(*math/rand.Rand).Int63n", "(*math/rand.Rand).Int31n"} {
		intrinsics[name] = randIntn
	}
	perm := func(fr *frame, a []value) value {
		n := int(asInt64(a[len(a)-1]))
		if n > 6 {
			panic(unsupported("rand.Perm above 6 elements"))
		}
		rem := make([]int, n)
		for k := range rem {
			rem[k] = k
		}
		out := make([]value, 0, n)
		for len(rem) > 0 {
			k := fr.i.choose("rnd", len(rem), "rand.Perm")
			out = append(out, rem[k])
			rem = append(rem[:k], rem[k+1:]...)
		}
		return out
	}
	intrinsics["math/rand.Perm"] = perm
	intrinsics["(*math/rand.Rand).Perm"] = perm
}

func (i *interpreter) zeroLike(x value) value {
	k, _ := kindOfValue(x)
	return concreteOfKind(k, new(big.Int))
}

func (i *interpreter) ghost() map[string]value {
	if i.ghostState == nil {
		i.ghostState = map[string]value{}
	}
	return i.ghostState
}
