package gosym

import (
	"fmt"
	"go/types"
	"os"
	"path/filepath"
	"strings"
	"sync"

	"golang.org/x/tools/go/packages"
	"golang.org/x/tools/go/ssa"
	"golang.org/x/tools/go/ssa/ssautil"
)

// Program is the loaded (read-only, shared between workers) SSA program.
type Program struct {
	Prog         *ssa.Program
	Pkgs         []*packages.Package
	TargetPrefix string
	intrCache    sync.Map // *ssa.Function -> intrinsic (or nil marker)
	byPath       map[string]*ssa.Package
	sampleModels bool
	LoadSeconds  float64
	RepoDir      string
	rtypePtr     types.Type // *reflect.rtype (reflect model)
}

type noIntrinsic struct{}

// HarnessFile describes one harness source file to overlay into a package directory of /repo.
type HarnessFile struct {
	Src    string // path of the harness source on disk
	Target string // virtual path inside the package directory
}

// Load loads the packages matching patterns from dir (the harness module), with harness files overlaid.
func Load(dir string, patterns []string, files []HarnessFile, tags []string) (*Program, error) {
	overlay := map[string][]byte{}
	for _, f := range files {
		b, err := os.ReadFile(f.Src)
		if err != nil {
			return nil, err
		}
		overlay[f.Target] = b
	}
	env := append(os.Environ(), "GOFLAGS=-mod=mod", "GOPROXY=off", "GOSUMDB=off", "GOTOOLCHAIN=local", "CGO_ENABLED=0")
	cfg := &packages.Config{
		Mode: packages.NeedName | packages.NeedFiles | packages.NeedCompiledGoFiles | packages.NeedImports | packages.NeedDeps |
			packages.NeedTypes | packages.NeedTypesSizes | packages.NeedSyntax | packages.NeedTypesInfo | packages.NeedModule,
		Dir:        dir,
		Env:        env,
		Overlay:    overlay,
		BuildFlags: []string{"-tags=" + strings.Join(tags, ",")},
	}
	pkgs, err := packages.Load(cfg, patterns...)
	if err != nil {
		return nil, err
	}
	var errs []string
	packages.Visit(pkgs, nil, func(p *packages.Package) {
		for _, e := range p.Errors {
			errs = append(errs, e.Error())
		}
	})
	if len(errs) > 0 {
		if len(errs) > 10 {
			errs = errs[:10]
		}
		return nil, fmt.Errorf("load errors:\n%s", strings.Join(errs, "\n"))
	}
	prog, _ := ssautil.AllPackages(pkgs, ssa.InstantiateGenerics|ssa.SanityCheckFunctions&0)
	prog.Build()
	p := &Program{Prog: prog, Pkgs: pkgs, TargetPrefix: "github.com/iotaledger/hive.go", byPath: map[string]*ssa.Package{}}
	for _, sp := range prog.AllPackages() {
		p.byPath[sp.Pkg.Path()] = sp
	}
	if prog.ImportedPackage("runtime") == nil {
		return nil, fmt.Errorf("program does not include package runtime")
	}
	return p, nil
}

func (p *Program) isTarget(path string) bool {
	return strings.HasPrefix(path, p.TargetPrefix)
}

// skipInit lists packages whose initialisers are not run (their globals read as zero values).
func (p *Program) skipInit(path string) bool {
	switch path {
	case "runtime", "os", "syscall", "internal/poll", "internal/cpu", "internal/godebug", "internal/syscall/unix",
		"os/signal", "net", "crypto/rand", "log", "internal/testlog", "internal/oserror", "time", "reflect",
		"internal/reflectlite", "sync", "sync/atomic", "runtime/debug", "internal/bisect", "log/slog", "math/rand",
		"math/rand/v2", "errors", "fmt", "internal/abi", "internal/goarch", "os/exec", "os/user", "testing", "flag", "encoding/gob", "crypto/sha256", "crypto":
		return true
	}
	return false
}

// harnessFunc resolves "import/path.Func".
func (p *Program) harnessFunc(name string) *ssa.Function {
	k := strings.LastIndex(name, ".")
	if k < 0 {
		return nil
	}
	pkg := p.byPath[name[:k]]
	if pkg == nil {
		return nil
	}
	return pkg.Func(name[k+1:])
}

// HarnessTarget computes the overlay path for a harness source: the first line must be
// `//verif:pkg <dir relative to /repo>`.
func HarnessTarget(repo, src string) (HarnessFile, string, error) {
	b, err := os.ReadFile(src)
	if err != nil {
		return HarnessFile{}, "", err
	}
	first := strings.SplitN(string(b), "\n", 2)[0]
	const pre = "//verif:pkg "
	if !strings.HasPrefix(first, pre) {
		return HarnessFile{}, "", fmt.Errorf("%s: first line must be %q<dir>", src, pre)
	}
	rel := strings.TrimSpace(first[len(pre):])
	base := "zz_verif_" + filepath.Base(src)
	return HarnessFile{Src: src, Target: filepath.Join(repo, rel, base)}, rel, nil
}
