package gosym

import (
	"fmt"
	"go/token"
	"go/types"

	"gosym/smt"
)

// Symbolic time (DESIGN.md 3.7). The clock is a sequence of symbolic instants T0 <= T1 <= ... (int64 ns,
// monotonic). time.Time values produced here carry hasMonotonic with the instant in ext, so the std
// comparison code would use ext; the common methods are intercepted anyway to stay free of /1e9 arithmetic.

const hasMonotonic = uint64(1) << 63

type timerState struct {
	deadline value // int64 (possibly symbolic)
	ch       *channel
	fn       value // AfterFunc
	active   bool
	period   value // ticker period (int64), nil for timers
	sleeper  *sleepWait
	id       int
}

type sleepWait struct{ fired bool }

type clockState struct {
	now       value // int64 instant (possibly symbolic)
	n         int
	timers    []*timerState
	byPtr     map[*value]*timerState
	fires     int
	envUsed   int
	voluntary int
}

func (i *interpreter) clk() *clockState {
	if i.clock == nil {
		i.clock = &clockState{byPtr: map[*value]*timerState{}}
		t0 := i.freshInstant()
		i.clock.now = t0
	}
	return i.clock
}

// freshInstant returns a new instant >= the current one (symbolic unless replaying).
func (i *interpreter) freshInstant() value {
	c := i.clock
	name := fmt.Sprintf("clock.T%d", c.n)
	c.n++
	v := i.nondetOf(name, types.Int64)
	if c.now == nil {
		i.constrain(i.binopV(token.GEQ, v, int64(0)))
	} else {
		i.constrain(i.binopV(token.GEQ, v, c.now))
	}
	i.constrain(i.binopV(token.LSS, v, int64(1)<<61))
	return v
}

// advanceTo makes now a fresh instant that is >= atLeast (if given).
func (i *interpreter) advance(atLeast value) {
	c := i.clk()
	t := i.freshInstant()
	if atLeast != nil {
		i.constrain(i.binopV(token.GEQ, t, atLeast))
	}
	c.now = t
}

func (i *interpreter) timeValue(inst value) value {
	return structure{hasMonotonic, inst, (*value)(nil)}
}

func instantOf(t value) value { return t.(structure)[1] }

func isClockTime(t value) bool {
	w, ok := t.(structure)[0].(uint64)
	return ok && w&hasMonotonic != 0
}

func (i *interpreter) timeNow() value {
	i.clk()
	i.advance(nil)
	return i.timeValue(i.clock.now)
}

func (i *interpreter) newTimer(d value, fn value, period value) *timerState {
	c := i.clk()
	dl := i.binopV(token.ADD, c.now, d)
	t := &timerState{deadline: dl, active: true, fn: fn, period: period, id: len(c.timers)}
	if fn == nil {
		t.ch = &channel{cap: 1}
		t.ch.timer = t
	}
	c.timers = append(c.timers, t)
	return t
}

// fire delivers timer t: time moves to an instant >= its deadline.
func (i *interpreter) fire(t *timerState) {
	c := i.clk()
	i.advance(t.deadline)
	c.fires++
	if c.fires > 64 {
		i.abort(OutBound, "more than 64 timer firings in one run")
	}
	if t.sleeper != nil {
		t.sleeper.fired = true
		t.active = false
		return
	}
	if t.fn != nil {
		t.active = false
		nt := i.newThread(fmt.Sprintf("g%d:timerfunc", len(i.threads)))
		nt.vc = i.cur.vc.copy()
		nt.tick()
		i.startThread(nt, t.fn, nil)
		return
	}
	if t.period != nil {
		t.deadline = i.binopV(token.ADD, t.deadline, t.period)
	} else {
		t.active = false
	}
	// non-blocking send of the current time
	tv := i.timeValue(c.now)
	ch := t.ch
	if w := popLive(&ch.recvq); w != nil {
		i.complete(w, tv, true, nil)
		return
	}
	if len(ch.buf) < ch.cap {
		ch.buf = append(ch.buf, chanItem{tv, nil})
	}
}

// timerBeforeRecv: an observation point of a channel timer. Decide whether it has fired by now.
func (i *interpreter) timerBeforeRecv(th *thread, c *channel) {
	t := c.timer
	if t == nil || !t.active || len(c.buf) > 0 {
		return
	}
	// voluntary firings (while other goroutines could still run) are capped; a timer that is the only thing
	// left to make progress still fires (clockAdvance)
	if i.clock.voluntary >= i.maxFires() {
		return
	}
	if i.choose("clk", 2, "timer fired?") == 1 {
		i.clock.voluntary++
		i.fire(t)
	}
}

func (i *interpreter) activeTimers() []*timerState {
	if i.clock == nil {
		return nil
	}
	var r []*timerState
	for _, t := range i.clock.timers {
		if t.active {
			r = append(r, t)
		}
	}
	return r
}

// clockAdvance is called when no thread can run: let time pass by firing one pending timer.
func (i *interpreter) clockAdvance() bool {
	ts := i.activeTimers()
	// a timer whose channel nobody waits on and whose buffer is full cannot unblock anything
	var useful []*timerState
	for _, t := range ts {
		if t.sleeper != nil || t.fn != nil || hasLive(t.ch.recvq) {
			useful = append(useful, t)
		}
	}
	if len(useful) == 0 {
		return false
	}
	k := i.choose("clk", len(useful), "which timer fires")
	i.fire(useful[k])
	return true
}

// maxFires is the budget of voluntary timer firings per run (firings while some goroutine could still run).
// A timer that is the only thing left to make progress always fires (clockAdvance).
func (i *interpreter) maxFires() int {
	if mf, ok := i.opts.Params["maxfires"]; ok {
		return mf
	}
	return 2
}

func (t *timerState) wakesSomeone() bool {
	return t.active && (t.fn != nil || t.sleeper != nil || (t.ch != nil && hasLive(t.ch.recvq)))
}

// clockEnabledActions: number of environment actions offered at ordinary scheduling points: timers whose
// firing is observed immediately (AfterFunc, sleepers, channel timers with a parked receiver). Channel timers
// nobody is parked on fire lazily at their next observation point.
func (i *interpreter) clockEnabledActions() int {
	if i.clock == nil || i.clock.voluntary >= i.maxFires() {
		return 0
	}
	n := 0
	for _, t := range i.clock.timers {
		if t.wakesSomeone() {
			n++
		}
	}
	return n
}

func (i *interpreter) clockDoAction(k int) {
	n := 0
	for _, t := range i.clock.timers {
		if t.wakesSomeone() {
			if n == k {
				i.clock.voluntary++
				i.fire(t)
				return
			}
			n++
		}
	}
}

func (i *interpreter) timerStop(th *thread, t *timerState) bool {
	i.schedPoint(th, "Timer.Stop")
	if !t.active {
		return false
	}
	if t.fn == nil && t.period == nil {
		// has it fired already?
		if i.clock.voluntary < i.maxFires() && i.choose("clk", 2, "timer fired before Stop?") == 1 {
			i.clock.voluntary++
			i.fire(t)
			return false
		}
	}
	t.active = false
	return true
}

func (i *interpreter) timerReset(th *thread, t *timerState, d value) bool {
	was := i.timerStop(th, t)
	c := i.clk()
	t.deadline = i.binopV(token.ADD, c.now, d)
	t.active = true
	return was
}

func registerTime() {
	intrinsics["time.Now"] = func(fr *frame, a []value) value { return fr.i.timeNow() }
	intrinsics["time.Since"] = func(fr *frame, a []value) value {
		now := fr.i.timeNow()
		return fr.i.binopV(token.SUB, instantOf(now), instantOf(a[0]))
	}
	intrinsics["time.Until"] = func(fr *frame, a []value) value {
		now := fr.i.timeNow()
		return fr.i.binopV(token.SUB, instantOf(a[0]), instantOf(now))
	}
	clockOnly := func(name string, f func(fr *frame, a []value) value) {
		intrinsics[name] = func(fr *frame, a []value) value {
			return f(fr, a)
		}
	}
	clockOnly("(time.Time).Add", func(fr *frame, a []value) value {
		if !isClockTime(a[0]) {
			panic(unsupported("time.Time.Add on a non-clock time"))
		}
		return fr.i.timeValue(fr.i.binopV(token.ADD, instantOf(a[0]), a[1]))
	})
	cmp := func(op token.Token) intrinsic {
		return func(fr *frame, a []value) value {
			if !isClockTime(a[0]) || !isClockTime(a[1]) {
				// zero times and clock times: order zero before everything
				z0, z1 := !isClockTime(a[0]), !isClockTime(a[1])
				switch op {
				case token.LSS:
					return z0 && !z1
				case token.GTR:
					return !z0 && z1
				default:
					return z0 && z1
				}
			}
			if op == token.EQL {
				return fr.i.equalsV(nil, instantOf(a[0]), instantOf(a[1]))
			}
			return fr.i.binopV(op, instantOf(a[0]), instantOf(a[1]))
		}
	}
	intrinsics["(time.Time).Before"] = cmp(token.LSS)
	intrinsics["(time.Time).After"] = cmp(token.GTR)
	intrinsics["(time.Time).Equal"] = cmp(token.EQL)
	intrinsics["(time.Time).Sub"] = func(fr *frame, a []value) value {
		if !isClockTime(a[0]) || !isClockTime(a[1]) {
			panic(unsupported("time.Time.Sub on a non-clock time"))
		}
		return fr.i.binopV(token.SUB, instantOf(a[0]), instantOf(a[1]))
	}
	intrinsics["(time.Time).Compare"] = func(fr *frame, a []value) value {
		i := fr.i
		if !isClockTime(a[0]) || !isClockTime(a[1]) {
			panic(unsupported("time.Time.Compare on a non-clock time"))
		}
		lt := i.binopV(token.LSS, instantOf(a[0]), instantOf(a[1]))
		gt := i.binopV(token.GTR, instantOf(a[0]), instantOf(a[1]))
		return i.iteV(lt, int(-1), i.iteV(gt, int(1), int(0)))
	}
	intrinsics["(time.Time).IsZero"] = func(fr *frame, a []value) value { return !isClockTime(a[0]) }
	intrinsics["(time.Time).UnixNano"] = func(fr *frame, a []value) value {
		if !isClockTime(a[0]) {
			panic(unsupported("UnixNano on a non-clock time"))
		}
		return instantOf(a[0])
	}
	intrinsics["(time.Time).Unix"] = func(fr *frame, a []value) value {
		// floor(instant / 1e9)
		if !isClockTime(a[0]) {
			panic(unsupported("Unix on a non-clock time"))
		}
		i := fr.i
		ns := instantOf(a[0])
		q := i.binopV(token.QUO, ns, int64(1000000000))
		r := i.binopV(token.REM, ns, int64(1000000000))
		neg := i.andV(i.binopV(token.LSS, ns, int64(0)), i.notV(i.equalsV(nil, r, int64(0))))
		return i.iteV(neg, i.binopV(token.SUB, q, int64(1)), q)
	}
	intrinsics["(time.Time).UTC"] = func(fr *frame, a []value) value { return a[0] }
	intrinsics["(time.Time).String"] = func(fr *frame, a []value) value { return "<time>" }
	intrinsics["(time.Duration).String"] = func(fr *frame, a []value) value { return "<duration>" }
	intrinsics["time.Unix"] = func(fr *frame, a []value) value {
		// (sec, nsec) -> instant in ns; used by the harnesses to build times on the engine's clock axis
		i := fr.i
		ns := i.binopV(token.ADD, i.binopV(token.MUL, a[0], int64(1000000000)), a[1])
		return i.timeValue(ns)
	}
	intrinsics["time.Sleep"] = func(fr *frame, a []value) value {
		i := fr.i
		i.clk()
		t := i.newTimer(a[0], nil, nil)
		t.ch = nil
		t.sleeper = &sleepWait{}
		i.schedPoint(fr.th, "Sleep")
		sw := t.sleeper
		if !sw.fired {
			i.park(fr.th, "time.Sleep", func() bool { return sw.fired })
		}
		return nil
	}
	mkTimer := func(fr *frame, t *timerState) value {
		var cell value = structure{t.ch, true}
		p := &cell
		fr.i.clock.byPtr[p] = t
		return p
	}
	intrinsics["time.NewTimer"] = func(fr *frame, a []value) value {
		fr.i.clk()
		return mkTimer(fr, fr.i.newTimer(a[0], nil, nil))
	}
	intrinsics["time.After"] = func(fr *frame, a []value) value {
		fr.i.clk()
		return fr.i.newTimer(a[0], nil, nil).ch
	}
	intrinsics["time.AfterFunc"] = func(fr *frame, a []value) value {
		fr.i.clk()
		t := fr.i.newTimer(a[0], a[1], nil)
		var cell value = structure{(*channel)(nil), true}
		p := &cell
		fr.i.clock.byPtr[p] = t
		return p
	}
	intrinsics["time.NewTicker"] = func(fr *frame, a []value) value {
		fr.i.clk()
		if d, ok := a[0].(int64); ok && d <= 0 {
			panic(targetPanicString(fr.i, "non-positive interval for NewTicker"))
		}
		return mkTimer(fr, fr.i.newTimer(a[0], nil, a[0]))
	}
	intrinsics["time.Tick"] = func(fr *frame, a []value) value {
		fr.i.clk()
		return fr.i.newTimer(a[0], nil, a[0]).ch
	}
	stop := func(fr *frame, a []value) value {
		t := fr.i.clk().byPtr[a[0].(*value)]
		if t == nil {
			panic(targetPanicString(fr.i, "time: Stop called on uninitialized Timer"))
		}
		return fr.i.timerStop(fr.th, t)
	}
	intrinsics["(*time.Timer).Stop"] = stop
	intrinsics["(*time.Ticker).Stop"] = func(fr *frame, a []value) value { stop(fr, a); return nil }
	intrinsics["(*time.Timer).Reset"] = func(fr *frame, a []value) value {
		t := fr.i.clk().byPtr[a[0].(*value)]
		if t == nil {
			panic(targetPanicString(fr.i, "time: Reset called on uninitialized Timer"))
		}
		return fr.i.timerReset(fr.th, t, a[1])
	}
	intrinsics["(*time.Ticker).Reset"] = func(fr *frame, a []value) value {
		t := fr.i.clk().byPtr[a[0].(*value)]
		fr.i.timerReset(fr.th, t, a[1])
		t.period = a[1]
		return nil
	}
}

var _ = smt.Unsat
