package gosym

// Model of package reflect over the interpreter's value representation (DESIGN.md 0.9).
//
// The real package works on raw memory and cannot be interpreted. Its exported functions and the methods of
// reflect.Value / *reflect.rtype / *reflect.MapIter are intercepted by name; the bodies below implement their
// documented behaviour on interpreter values:
//
//	reflect.Type   an interface value whose dynamic type is *reflect.rtype and whose pointer is a canonical cell
//	               (one per go/types type, so == and map keys work) holding rtypeBox{types.Type}
//	reflect.Value  the 3-field struct of the real package, re-used as {type cell, payload, flags}: the payload is
//	               the address (*value) of the storage when the Value is addressable, else the value itself
//
// Only what serix (and the harnesses) use is modelled; anything else ends the run as "unsupported".

import (
	"fmt"
	"go/token"
	"go/types"
	"strings"
	"sync"

	"golang.org/x/tools/go/ssa"
	"golang.org/x/tools/go/types/typeutil"
)

type rtypeBox struct{ t types.Type }

var (
	rtypeMu    sync.Mutex
	rtypeCells typeutil.Map // types.Type -> *value (shared by all runs: cells are immutable)
)

func rtypeCell(t types.Type) *value {
	rtypeMu.Lock()
	defer rtypeMu.Unlock()
	if c := rtypeCells.At(t); c != nil {
		return c.(*value)
	}
	c := new(value)
	*c = rtypeBox{t}
	rtypeCells.Set(t, c)
	return c
}

func (i *interpreter) rtypePtrType() types.Type {
	if i.p.rtypePtr == nil {
		pkg := i.prog.ImportedPackage("reflect")
		if pkg == nil {
			panic(unsupported("package reflect is not loaded"))
		}
		i.p.rtypePtr = types.NewPointer(pkg.Members["rtype"].(*ssa.Type).Type())
	}
	return i.p.rtypePtr
}

// mkType boxes a go/types type as a reflect.Type interface value.
func (i *interpreter) mkType(t types.Type) value {
	return iface{t: i.rtypePtrType(), v: rtypeCell(t)}
}

func typeOfRecv(v value) types.Type {
	switch v := v.(type) {
	case *value:
		if v == nil {
			panic(runtimeError("invalid memory address or nil pointer dereference (nil reflect.Type)"))
		}
		return (*v).(rtypeBox).t
	case iface:
		if v.t == nil {
			panic(runtimeError("invalid memory address or nil pointer dereference (nil reflect.Type)"))
		}
		return typeOfRecv(v.v)
	}
	panic(unsupported(fmt.Sprintf("reflect.Type receiver %T", v)))
}

const (
	rvValid = 1
	rvAddr  = 2
	rvRO    = 4 // obtained through an unexported struct field: Set* and Interface panic (reflect's flagRO)
)

type rv struct {
	t    types.Type
	addr *value // when addressable
	val  value  // when not addressable
	ok   bool
	ro   bool
}

func unpackRV(v value) rv {
	s := v.(structure)
	fl, _ := s[2].(uintptr)
	if fl&rvValid == 0 {
		return rv{}
	}
	t := (*(s[0].(*value))).(rtypeBox).t
	if fl&rvAddr != 0 {
		return rv{t: t, addr: s[1].(*value), ok: true, ro: fl&rvRO != 0}
	}
	return rv{t: t, val: s[1], ok: true, ro: fl&rvRO != 0}
}

// withRO marks a packed Value as read-only when its parent was, or when it was reached through an unexported field.
func withRO(v value, ro bool) value {
	if !ro {
		return v
	}
	s := v.(structure)
	if fl, _ := s[2].(uintptr); fl&rvValid != 0 {
		return structure{s[0], s[1], fl | rvRO}
	}
	return v
}

func (r rv) get() value {
	if r.addr != nil {
		return *r.addr
	}
	return r.val
}

func (r rv) must(what string) rv {
	if !r.ok {
		panic(targetPanicMsg("reflect: call of reflect.Value." + what + " on zero Value"))
	}
	return r
}

func targetPanicMsg(s string) targetPanic {
	return targetPanic{iface{t: types.Typ[types.String], v: s}}
}

func packRV(t types.Type, v value) value {
	return structure{rtypeCell(t), v, uintptr(rvValid)}
}

func packRVAddr(t types.Type, addr *value) value {
	return structure{rtypeCell(t), addr, uintptr(rvValid | rvAddr)}
}

func zeroRV() value { return structure{(*value)(nil), nil, uintptr(0)} }

func reflectKind(t types.Type) uint {
	switch u := t.Underlying().(type) {
	case *types.Basic:
		switch u.Kind() {
		case types.Bool, types.UntypedBool:
			return 1
		case types.Int, types.UntypedInt:
			return 2
		case types.Int8:
			return 3
		case types.Int16:
			return 4
		case types.Int32, types.UntypedRune:
			return 5
		case types.Int64:
			return 6
		case types.Uint:
			return 7
		case types.Uint8:
			return 8
		case types.Uint16:
			return 9
		case types.Uint32:
			return 10
		case types.Uint64:
			return 11
		case types.Uintptr:
			return 12
		case types.Float32:
			return 13
		case types.Float64, types.UntypedFloat:
			return 14
		case types.Complex64:
			return 15
		case types.Complex128:
			return 16
		case types.String, types.UntypedString:
			return 24
		case types.UnsafePointer:
			return 26
		}
	case *types.Array:
		return 17
	case *types.Chan:
		return 18
	case *types.Signature:
		return 19
	case *types.Interface:
		return 20
	case *types.Map:
		return 21
	case *types.Pointer:
		return 22
	case *types.Slice:
		return 23
	case *types.Struct:
		return 25
	}
	panic(unsupported(fmt.Sprintf("reflect kind of %s", t)))
}

const (
	kArray = 17
	kChan  = 18
	kFunc  = 19
	kIface = 20
	kMap   = 21
	kPtr   = 22
	kSlice = 23
	kStr   = 24
	kStruc = 25
)

func typeString(t types.Type) string {
	return types.TypeString(t, func(p *types.Package) string { return p.Name() })
}

// assignRV converts x for storage in a variable of type dst (wrapping in an interface when dst is one).
func assignRV(dst types.Type, x rv) value {
	if _, isIface := dst.Underlying().(*types.Interface); isIface {
		if _, srcIface := x.t.Underlying().(*types.Interface); srcIface {
			return x.get()
		}
		return iface{t: x.t, v: copyVal(x.get())}
	}
	return copyVal(x.get())
}

type mapIterState struct {
	m       rv
	entries []*mentry
	pos     int
}

func (i *interpreter) isZeroV(t types.Type, v value) value {
	switch u := t.Underlying().(type) {
	case *types.Basic:
		return i.equalsV(t, v, zero(t))
	case *types.Pointer, *types.Chan:
		return i.equalsV(t, v, zero(t))
	case *types.Slice:
		s, _ := v.([]value)
		return s == nil
	case *types.Map:
		m, _ := v.(*omap)
		return m == nil
	case *types.Signature:
		return v == nil || v == (*ssa.Function)(nil) || v == (*closure)(nil)
	case *types.Interface:
		return v.(iface).t == nil
	case *types.Array:
		var acc value = true
		for _, e := range v.(array) {
			acc = i.andV(acc, i.isZeroV(u.Elem(), e))
		}
		return acc
	case *types.Struct:
		var acc value = true
		for k, e := range v.(structure) {
			acc = i.andV(acc, i.isZeroV(u.Field(k).Type(), e))
		}
		return acc
	}
	panic(unsupported(fmt.Sprintf("reflect.Value.IsZero of %s", t)))
}

func registerReflect() {
	in := intrinsics
	// errors.Join's Error() builds its text with unsafe.String; the text is not semantic
	in["(*errors.joinError).Error"] = func(fr *frame, a []value) value { return "<joined errors>" }
	// ---- package functions
	in["reflect.TypeOf"] = func(fr *frame, a []value) value {
		x := a[0].(iface)
		if x.t == nil {
			return iface{}
		}
		return fr.i.mkType(x.t)
	}
	in["reflect.ValueOf"] = func(fr *frame, a []value) value {
		x := a[0].(iface)
		if x.t == nil {
			return zeroRV()
		}
		return packRV(x.t, x.v)
	}
	in["reflect.New"] = func(fr *frame, a []value) value {
		t := typeOfRecv(a[0])
		p := new(value)
		*p = zero(t)
		return packRV(types.NewPointer(t), p)
	}
	in["reflect.Zero"] = func(fr *frame, a []value) value {
		t := typeOfRecv(a[0])
		return packRV(t, zero(t))
	}
	in["reflect.Indirect"] = func(fr *frame, a []value) value {
		r := unpackRV(a[0])
		if !r.ok || reflectKind(r.t) != kPtr {
			return a[0]
		}
		return rvElem(r)
	}
	ptrTo := func(fr *frame, a []value) value { return fr.i.mkType(types.NewPointer(typeOfRecv(a[0]))) }
	in["reflect.PtrTo"] = ptrTo
	in["reflect.PointerTo"] = ptrTo
	in["reflect.SliceOf"] = func(fr *frame, a []value) value { return fr.i.mkType(types.NewSlice(typeOfRecv(a[0]))) }
	in["reflect.MakeSlice"] = func(fr *frame, a []value) value {
		i := fr.i
		t := typeOfRecv(a[0])
		n := i.makeLen(a[1], "reflect.MakeSlice len")
		c := i.makeLen(a[2], "reflect.MakeSlice cap")
		if n < 0 || c < n {
			panic(targetPanicMsg("reflect.MakeSlice: len/cap out of range"))
		}
		tElt := t.Underlying().(*types.Slice).Elem()
		i.chargeAlloc(c, tElt)
		s := make([]value, c)
		for k := range s {
			s[k] = zero(tElt)
		}
		return packRV(t, s[:n])
	}
	makeMapR := func(fr *frame, a []value) value {
		t := typeOfRecv(a[0])
		return packRV(t, makeMap(t.Underlying().(*types.Map).Key()))
	}
	in["reflect.MakeMap"] = makeMapR
	in["reflect.MakeMapWithSize"] = makeMapR
	in["reflect.Append"] = func(fr *frame, a []value) value {
		r := unpackRV(a[0]).must("Append")
		s, _ := r.get().([]value)
		tElt := r.t.Underlying().(*types.Slice).Elem()
		out := append([]value(nil), s...)
		for _, x := range a[1].([]value) {
			out = append(out, assignRV(tElt, unpackRV(x).must("Append")))
		}
		fr.i.chargeAlloc(int64(len(out)), tElt)
		return packRV(r.t, out)
	}
	in["reflect.AppendSlice"] = func(fr *frame, a []value) value {
		r := unpackRV(a[0]).must("AppendSlice")
		s, _ := r.get().([]value)
		t, _ := unpackRV(a[1]).must("AppendSlice").get().([]value)
		out := append(append([]value(nil), s...), t...)
		return packRV(r.t, out)
	}
	in["reflect.Copy"] = func(fr *frame, a []value) value {
		d := unpackRV(a[0]).must("Copy")
		s := unpackRV(a[1]).must("Copy")
		var dst, src []value
		switch x := d.get().(type) {
		case []value:
			dst = x
		case array:
			if d.addr == nil {
				panic(targetPanicMsg("reflect.Copy: unaddressable array value"))
			}
			dst = []value((*d.addr).(array))
		}
		switch x := s.get().(type) {
		case []value:
			src = x
		case array:
			src = []value(x)
		default:
			src = strBytes(x)
		}
		n := 0
		for ; n < len(dst) && n < len(src); n++ {
			dst[n] = copyVal(src[n])
		}
		return n
	}

	// ---- reflect.Type (methods of *rtype)
	tm := func(name string, f func(fr *frame, t types.Type, a []value) value) {
		in["(*reflect.rtype)."+name] = func(fr *frame, a []value) value { return f(fr, typeOfRecv(a[0]), a) }
	}
	tm("Kind", func(fr *frame, t types.Type, a []value) value { return reflectKind(t) })
	tm("String", func(fr *frame, t types.Type, a []value) value { return typeString(t) })
	tm("Name", func(fr *frame, t types.Type, a []value) value {
		switch t := t.(type) {
		case *types.Named:
			return t.Obj().Name()
		case *types.Basic:
			return t.Name()
		case *types.Alias:
			return t.Obj().Name()
		}
		return ""
	})
	tm("PkgPath", func(fr *frame, t types.Type, a []value) value {
		if n, ok := t.(*types.Named); ok && n.Obj().Pkg() != nil {
			return n.Obj().Pkg().Path()
		}
		return ""
	})
	tm("Elem", func(fr *frame, t types.Type, a []value) value {
		switch u := t.Underlying().(type) {
		case *types.Pointer:
			return fr.i.mkType(u.Elem())
		case *types.Slice:
			return fr.i.mkType(u.Elem())
		case *types.Array:
			return fr.i.mkType(u.Elem())
		case *types.Map:
			return fr.i.mkType(u.Elem())
		case *types.Chan:
			return fr.i.mkType(u.Elem())
		}
		panic(targetPanicMsg("reflect: Elem of invalid type " + typeString(t)))
	})
	tm("Key", func(fr *frame, t types.Type, a []value) value {
		return fr.i.mkType(t.Underlying().(*types.Map).Key())
	})
	tm("Len", func(fr *frame, t types.Type, a []value) value { return int(t.Underlying().(*types.Array).Len()) })
	tm("NumField", func(fr *frame, t types.Type, a []value) value {
		st, ok := t.Underlying().(*types.Struct)
		if !ok {
			panic(targetPanicMsg("reflect: NumField of non-struct type " + typeString(t)))
		}
		return st.NumFields()
	})
	tm("Field", func(fr *frame, t types.Type, a []value) value {
		st, ok := t.Underlying().(*types.Struct)
		if !ok {
			panic(targetPanicMsg("reflect: Field of non-struct type " + typeString(t)))
		}
		k := int(asInt64(a[1]))
		if k < 0 || k >= st.NumFields() {
			panic(targetPanicMsg("reflect: Field index out of bounds"))
		}
		f := st.Field(k)
		pkgPath := ""
		if !f.Exported() && f.Pkg() != nil {
			pkgPath = f.Pkg().Path()
		}
		return structure{f.Name(), pkgPath, fr.i.mkType(f.Type()), st.Tag(k), uintptr(0), []value{k}, f.Anonymous()}
	})
	tm("NumMethod", func(fr *frame, t types.Type, a []value) value {
		return fr.i.prog.MethodSets.MethodSet(t).Len()
	})
	tm("Implements", func(fr *frame, t types.Type, a []value) value {
		u, ok := typeOfRecv(a[1]).Underlying().(*types.Interface)
		if !ok {
			panic(targetPanicMsg("reflect: non-interface type passed to Type.Implements"))
		}
		return types.Implements(t, u)
	})
	tm("AssignableTo", func(fr *frame, t types.Type, a []value) value { return types.AssignableTo(t, typeOfRecv(a[1])) })
	tm("ConvertibleTo", func(fr *frame, t types.Type, a []value) value { return types.ConvertibleTo(t, typeOfRecv(a[1])) })
	tm("Comparable", func(fr *frame, t types.Type, a []value) value { return types.Comparable(t) })
	tm("Bits", func(fr *frame, t types.Type, a []value) value {
		w, _ := kindInfo(t.Underlying().(*types.Basic).Kind())
		return w
	})
	tm("Size", func(fr *frame, t types.Type, a []value) value {
		return uintptr(types.SizesFor("gc", "amd64").Sizeof(t))
	})
	sig := func(t types.Type) *types.Signature {
		s, ok := t.Underlying().(*types.Signature)
		if !ok {
			panic(targetPanicMsg("reflect: function method of non-func type " + typeString(t)))
		}
		return s
	}
	tm("NumIn", func(fr *frame, t types.Type, a []value) value { return sig(t).Params().Len() })
	tm("NumOut", func(fr *frame, t types.Type, a []value) value { return sig(t).Results().Len() })
	tm("In", func(fr *frame, t types.Type, a []value) value {
		return fr.i.mkType(sig(t).Params().At(int(asInt64(a[1]))).Type())
	})
	tm("Out", func(fr *frame, t types.Type, a []value) value {
		return fr.i.mkType(sig(t).Results().At(int(asInt64(a[1]))).Type())
	})
	tm("IsVariadic", func(fr *frame, t types.Type, a []value) value { return sig(t).Variadic() })

	// ---- reflect.Value
	vm := func(name string, f func(fr *frame, r rv, a []value) value) {
		in["(reflect.Value)."+name] = func(fr *frame, a []value) value { return f(fr, unpackRV(a[0]), a) }
	}
	vm("IsValid", func(fr *frame, r rv, a []value) value { return r.ok })
	vm("Kind", func(fr *frame, r rv, a []value) value {
		if !r.ok {
			return uint(0)
		}
		return reflectKind(r.t)
	})
	vm("Type", func(fr *frame, r rv, a []value) value { return fr.i.mkType(r.must("Type").t) })
	vm("CanAddr", func(fr *frame, r rv, a []value) value { return r.addr != nil })
	vm("CanSet", func(fr *frame, r rv, a []value) value { return r.addr != nil && !r.ro })
	vm("CanInterface", func(fr *frame, r rv, a []value) value { return !r.must("CanInterface").ro })
	vm("Interface", func(fr *frame, r rv, a []value) value {
		r.must("Interface")
		if r.ro {
			panic(targetPanicMsg("reflect.Value.Interface: cannot return value obtained from unexported field or method"))
		}
		if _, isIface := r.t.Underlying().(*types.Interface); isIface {
			return r.get()
		}
		return iface{t: r.t, v: copyVal(r.get())}
	})
	vm("Elem", func(fr *frame, r rv, a []value) value { return withRO(rvElem(r.must("Elem")), r.ro) })
	vm("Addr", func(fr *frame, r rv, a []value) value {
		if r.must("Addr").addr == nil {
			panic(targetPanicMsg("reflect.Value.Addr of unaddressable value"))
		}
		return withRO(packRV(types.NewPointer(r.t), r.addr), r.ro)
	})
	vm("IsNil", func(fr *frame, r rv, a []value) value {
		r.must("IsNil")
		switch x := r.get().(type) {
		case *value:
			return x == nil
		case []value:
			return x == nil
		case *omap:
			return x == nil
		case iface:
			return x.t == nil
		case *channel:
			return x == nil
		case *ssa.Function:
			return x == nil
		case *closure:
			return x == nil
		case nil:
			return true
		}
		panic(targetPanicMsg("reflect: call of reflect.Value.IsNil on " + typeString(r.t) + " Value"))
	})
	vm("IsZero", func(fr *frame, r rv, a []value) value { return fr.i.isZeroV(r.must("IsZero").t, r.get()) })
	vm("Len", func(fr *frame, r rv, a []value) value {
		switch x := r.must("Len").get().(type) {
		case []value:
			return len(x)
		case array:
			return len(x)
		case *omap:
			if x == nil {
				return 0
			}
			return x.len()
		case string:
			return len(x)
		case *SymStr:
			return len(x.B)
		}
		panic(targetPanicMsg("reflect: call of reflect.Value.Len on " + typeString(r.t) + " Value"))
	})
	vm("Cap", func(fr *frame, r rv, a []value) value {
		switch x := r.must("Cap").get().(type) {
		case []value:
			return cap(x)
		case array:
			return len(x)
		}
		panic(targetPanicMsg("reflect: call of reflect.Value.Cap on " + typeString(r.t) + " Value"))
	})
	vm("NumField", func(fr *frame, r rv, a []value) value {
		st, ok := r.must("NumField").t.Underlying().(*types.Struct)
		if !ok {
			panic(targetPanicMsg("reflect: call of reflect.Value.NumField on " + typeString(r.t) + " Value"))
		}
		return st.NumFields()
	})
	vm("Field", func(fr *frame, r rv, a []value) value {
		st, ok := r.must("Field").t.Underlying().(*types.Struct)
		if !ok {
			panic(targetPanicMsg("reflect: call of reflect.Value.Field on " + typeString(r.t) + " Value"))
		}
		k := int(asInt64(a[1]))
		if k < 0 || k >= st.NumFields() {
			panic(targetPanicMsg("reflect: Field index out of range"))
		}
		ft := st.Field(k).Type()
		ro := r.ro || !st.Field(k).Exported()
		if r.addr != nil {
			return withRO(packRVAddr(ft, &(*r.addr).(structure)[k]), ro)
		}
		return withRO(packRV(ft, r.val.(structure)[k]), ro)
	})
	vm("Index", func(fr *frame, r rv, a []value) value {
		r.must("Index")
		switch u := r.t.Underlying().(type) {
		case *types.Slice:
			s := r.get().([]value)
			return withRO(packRVAddr(u.Elem(), &s[fr.i.indexIn(a[1], len(s))]), r.ro)
		case *types.Array:
			if r.addr != nil {
				arr := (*r.addr).(array)
				return withRO(packRVAddr(u.Elem(), &arr[fr.i.indexIn(a[1], len(arr))]), r.ro)
			}
			arr := r.val.(array)
			return withRO(packRV(u.Elem(), arr[fr.i.indexIn(a[1], len(arr))]), r.ro)
		case *types.Basic:
			b := strBytes(r.get())
			return packRV(types.Typ[types.Uint8], b[fr.i.indexIn(a[1], len(b))])
		}
		panic(targetPanicMsg("reflect: call of reflect.Value.Index on " + typeString(r.t) + " Value"))
	})
	vm("Slice", func(fr *frame, r rv, a []value) value {
		r.must("Slice")
		lo, hi := int(asInt64(a[1])), int(asInt64(a[2]))
		switch x := r.get().(type) {
		case []value:
			if lo < 0 || hi < lo || hi > cap(x) {
				panic(targetPanicMsg("reflect.Value.Slice: slice index out of bounds"))
			}
			return packRV(r.t, x[lo:hi])
		case array:
			if r.addr == nil {
				panic(targetPanicMsg("reflect.Value.Slice: slice of unaddressable array"))
			}
			if lo < 0 || hi < lo || hi > len(x) {
				panic(targetPanicMsg("reflect.Value.Slice: slice index out of bounds"))
			}
			return packRV(types.NewSlice(r.t.Underlying().(*types.Array).Elem()), []value(x)[lo:hi])
		}
		panic(unsupported("reflect.Value.Slice of " + typeString(r.t)))
	})
	vm("Bool", func(fr *frame, r rv, a []value) value { return r.must("Bool").get() })
	vm("String", func(fr *frame, r rv, a []value) value {
		if !r.ok {
			return "<invalid Value>"
		}
		if reflectKind(r.t) == kStr {
			return r.get()
		}
		return "<" + typeString(r.t) + " Value>"
	})
	vm("Bytes", func(fr *frame, r rv, a []value) value {
		switch x := r.must("Bytes").get().(type) {
		case []value:
			return x
		case array:
			if r.addr == nil {
				panic(targetPanicMsg("reflect.Value.Bytes of unaddressable byte array"))
			}
			return []value((*r.addr).(array))
		}
		panic(targetPanicMsg("reflect.Value.Bytes of non-byte slice"))
	})
	vm("Int", func(fr *frame, r rv, a []value) value {
		return fr.i.conv(types.Typ[types.Int64], r.must("Int").t.Underlying(), r.get())
	})
	vm("Uint", func(fr *frame, r rv, a []value) value {
		return fr.i.conv(types.Typ[types.Uint64], r.must("Uint").t.Underlying(), r.get())
	})
	vm("Float", func(fr *frame, r rv, a []value) value {
		return fr.i.conv(types.Typ[types.Float64], r.must("Float").t.Underlying(), r.get())
	})
	set := func(r rv, v value) {
		if r.ro {
			panic(targetPanicMsg("reflect: reflect.Value.Set using value obtained using unexported field"))
		}
		if r.addr == nil {
			panic(targetPanicMsg("reflect: reflect.Value.Set using unaddressable value"))
		}
		*r.addr = v
	}
	vm("Set", func(fr *frame, r rv, a []value) value {
		x := unpackRV(a[1]).must("Set")
		if !types.AssignableTo(x.t, r.must("Set").t) {
			panic(targetPanicMsg("reflect.Set: value of type " + typeString(x.t) + " is not assignable to type " + typeString(r.t)))
		}
		set(r, assignRV(r.t, x))
		return nil
	})
	vm("SetBool", func(fr *frame, r rv, a []value) value { set(r.must("SetBool"), a[1]); return nil })
	vm("SetString", func(fr *frame, r rv, a []value) value { set(r.must("SetString"), a[1]); return nil })
	vm("SetBytes", func(fr *frame, r rv, a []value) value { set(r.must("SetBytes"), a[1]); return nil })
	vm("SetInt", func(fr *frame, r rv, a []value) value {
		set(r.must("SetInt"), fr.i.conv(r.t.Underlying(), types.Typ[types.Int64], a[1]))
		return nil
	})
	vm("SetUint", func(fr *frame, r rv, a []value) value {
		set(r.must("SetUint"), fr.i.conv(r.t.Underlying(), types.Typ[types.Uint64], a[1]))
		return nil
	})
	vm("SetFloat", func(fr *frame, r rv, a []value) value {
		set(r.must("SetFloat"), fr.i.conv(r.t.Underlying(), types.Typ[types.Float64], a[1]))
		return nil
	})
	vm("SetLen", func(fr *frame, r rv, a []value) value {
		s := r.must("SetLen").get().([]value)
		n := int(asInt64(a[1]))
		if n < 0 || n > cap(s) {
			panic(targetPanicMsg("reflect: slice length out of range in SetLen"))
		}
		set(r, s[:n])
		return nil
	})
	vm("Convert", func(fr *frame, r rv, a []value) value {
		dst := typeOfRecv(a[1])
		r.must("Convert")
		if !types.ConvertibleTo(r.t, dst) {
			panic(targetPanicMsg("reflect.Value.Convert: value of type " + typeString(r.t) + " cannot be converted to type " + typeString(dst)))
		}
		if _, isIface := dst.Underlying().(*types.Interface); isIface {
			return packRV(dst, assignRV(dst, r))
		}
		if types.Identical(r.t.Underlying(), dst.Underlying()) {
			return packRV(dst, copyVal(r.get()))
		}
		if _, isPtr := dst.Underlying().(*types.Pointer); isPtr {
			// pointer conversion between types with identical base types: the same pointer
			return packRV(dst, r.get())
		}
		return packRV(dst, fr.i.conv(dst, r.t, r.get()))
	})
	vm("MapIndex", func(fr *frame, r rv, a []value) value {
		m, _ := r.must("MapIndex").get().(*omap)
		mt := r.t.Underlying().(*types.Map)
		if m == nil {
			return zeroRV()
		}
		k := unpackRV(a[1]).must("MapIndex")
		if e := m.find(fr.i, assignRV(mt.Key(), k)); e != nil {
			return packRV(mt.Elem(), copyVal(e.val))
		}
		return zeroRV()
	})
	vm("SetMapIndex", func(fr *frame, r rv, a []value) value {
		m, _ := r.must("SetMapIndex").get().(*omap)
		mt := r.t.Underlying().(*types.Map)
		if m == nil {
			panic(targetPanicMsg("assignment to entry in nil map"))
		}
		k := assignRV(mt.Key(), unpackRV(a[1]).must("SetMapIndex"))
		e := unpackRV(a[2])
		if !e.ok {
			m.delete(fr.i, k)
			return nil
		}
		m.insert(fr.i, k, assignRV(mt.Elem(), e))
		return nil
	})
	vm("MapKeys", func(fr *frame, r rv, a []value) value {
		m, _ := r.must("MapKeys").get().(*omap)
		mt := r.t.Underlying().(*types.Map)
		out := []value{}
		if m != nil {
			for _, e := range m.entries {
				if e != nil && !e.dead {
					out = append(out, packRV(mt.Key(), copyVal(e.key)))
				}
			}
		}
		return out
	})
	vm("MapRange", func(fr *frame, r rv, a []value) value {
		m, _ := r.must("MapRange").get().(*omap)
		st := &mapIterState{m: r, pos: -1}
		if m != nil {
			for _, e := range m.entries {
				if e != nil && !e.dead {
					st.entries = append(st.entries, e)
				}
			}
			if fr.i.opts.ReverseMaps {
				for l, h := 0, len(st.entries)-1; l < h; l, h = l+1, h-1 {
					st.entries[l], st.entries[h] = st.entries[h], st.entries[l]
				}
			}
		}
		p := new(value)
		*p = st
		return p
	})
	in["(*reflect.MapIter).Next"] = func(fr *frame, a []value) value {
		st := (*a[0].(*value)).(*mapIterState)
		st.pos++
		return st.pos < len(st.entries)
	}
	in["(*reflect.MapIter).Key"] = func(fr *frame, a []value) value {
		st := (*a[0].(*value)).(*mapIterState)
		return packRV(st.m.t.Underlying().(*types.Map).Key(), copyVal(st.entries[st.pos].key))
	}
	in["(*reflect.MapIter).Value"] = func(fr *frame, a []value) value {
		st := (*a[0].(*value)).(*mapIterState)
		return packRV(st.m.t.Underlying().(*types.Map).Elem(), copyVal(st.entries[st.pos].val))
	}
	vm("Call", func(fr *frame, r rv, a []value) value {
		s := sig(r.must("Call").t)
		var args []value
		for k, x := range a[1].([]value) {
			if k >= s.Params().Len() {
				panic(unsupported("reflect.Value.Call with variadic arguments"))
			}
			args = append(args, assignRV(s.Params().At(k).Type(), unpackRV(x).must("Call")))
		}
		res := call(fr.i, fr, token.NoPos, r.get(), args)
		out := []value{}
		switch s.Results().Len() {
		case 0:
		case 1:
			out = append(out, packRV(s.Results().At(0).Type(), res))
		default:
			for k, x := range res.(tuple) {
				out = append(out, packRV(s.Results().At(k).Type(), x))
			}
		}
		return out
	})
	vm("FieldByName", func(fr *frame, r rv, a []value) value {
		st, ok := r.must("FieldByName").t.Underlying().(*types.Struct)
		if !ok {
			panic(targetPanicMsg("reflect: call of reflect.Value.FieldByName on " + typeString(r.t) + " Value"))
		}
		name := fr.i.concString(a[1], "field name")
		for k := 0; k < st.NumFields(); k++ {
			if st.Field(k).Name() == name {
				if r.addr != nil {
					return packRVAddr(st.Field(k).Type(), &(*r.addr).(structure)[k])
				}
				return packRV(st.Field(k).Type(), r.val.(structure)[k])
			}
		}
		return zeroRV()
	})
	// StructTag helpers are pure string code but use strconv.Unquote; model Lookup/Get directly
	lookup := func(tag, key string) (string, bool) {
		for tag != "" {
			k := 0
			for k < len(tag) && tag[k] == ' ' {
				k++
			}
			tag = tag[k:]
			if tag == "" {
				break
			}
			k = 0
			for k < len(tag) && tag[k] > ' ' && tag[k] != ':' && tag[k] != '"' && tag[k] != 0x7f {
				k++
			}
			if k == 0 || k+1 >= len(tag) || tag[k] != ':' || tag[k+1] != '"' {
				break
			}
			name := tag[:k]
			tag = tag[k+1:]
			k = 1
			for k < len(tag) && tag[k] != '"' {
				if tag[k] == '\\' {
					k++
				}
				k++
			}
			if k >= len(tag) {
				break
			}
			q := tag[1:k]
			tag = tag[k+1:]
			if name == key {
				return strings.ReplaceAll(q, `\"`, `"`), true
			}
		}
		return "", false
	}
	in["(reflect.StructTag).Lookup"] = func(fr *frame, a []value) value {
		v, ok := lookup(fr.i.concString(a[0], "struct tag"), fr.i.concString(a[1], "tag key"))
		return tuple{v, ok}
	}
	in["(reflect.StructTag).Get"] = func(fr *frame, a []value) value {
		v, _ := lookup(fr.i.concString(a[0], "struct tag"), fr.i.concString(a[1], "tag key"))
		return v
	}
}

func rvElem(r rv) value {
	switch u := r.t.Underlying().(type) {
	case *types.Pointer:
		p, _ := r.get().(*value)
		if p == nil {
			return zeroRV()
		}
		return packRVAddr(u.Elem(), p)
	case *types.Interface:
		x := r.get().(iface)
		if x.t == nil {
			return zeroRV()
		}
		return packRV(x.t, x.v)
	}
	panic(targetPanicMsg("reflect: call of reflect.Value.Elem on " + typeString(r.t) + " Value"))
}
