package gosym

// Model of crypto/sha256 (DESIGN.md 3.5, "hash model").
//
// A digest over concrete bytes is the real SHA-256 (computed natively). A digest over an input with symbolic bytes
// is a fresh 256-bit variable per distinct input term, constrained pairwise against every other digest taken on
// the path (Ackermann expansion of an uninterpreted function, plus the standard symbolic-crypto idealisation):
//
//	same input length:       in_a = in_b  <=>  out_a = out_b     (functional consistency and collision freedom)
//	different input length:  out_a != out_b                      (collision freedom)
//	out != 0^256                                                 (no known preimage of the all-zero digest, which
//	                                                              pokt-network/smt uses as its placeholder)
//
// Collision freedom is an ASSUMPTION of every check that hashes symbolic data (listed in the evidence); a
// counterexample is replayed with the real SHA-256, so one that depends on the idealisation cannot be reported.

import (
	"crypto/sha256"
	"fmt"
	"go/types"
	"math/big"

	"gosym/smt"

	"golang.org/x/tools/go/ssa"
)

type hashApp struct {
	n   int
	in  *smt.Term // 8n-bit input (nil for n == 0)
	out *smt.Term // 256-bit digest
	sym bool
	res []value
	inb []value // the input bytes (to see concrete mismatches without the solver)
}

// surelyDifferent: some byte position holds different concrete values in the two inputs.
func surelyDifferent(a, b []value) bool {
	for k := range a {
		x, ok1 := a[k].(uint8)
		y, ok2 := b[k].(uint8)
		if ok1 && ok2 && x != y {
			return true
		}
	}
	return false
}

type hashState struct {
	bufs   map[*value][]value
	apps   []*hashApp
	byIn   map[*smt.Term]*hashApp
	byStr  map[string]*hashApp
	byOut  map[*smt.Term]*hashApp // symbolic digests by their 256-bit variable
	byConc map[string]*hashApp    // concrete digests by their 32 bytes
}

func (i *interpreter) hs() *hashState {
	if i.hash == nil {
		i.hash = &hashState{bufs: map[*value][]value{}, byIn: map[*smt.Term]*hashApp{}, byStr: map[string]*hashApp{},
			byOut: map[*smt.Term]*hashApp{}, byConc: map[string]*hashApp{}}
	}
	return i.hash
}

func concreteBytes(in []value) ([]byte, bool) {
	b := make([]byte, len(in))
	for k, v := range in {
		c, ok := v.(uint8)
		if !ok {
			return nil, false
		}
		b[k] = c
	}
	return b, true
}

func (i *interpreter) bytesTerm(in []value) *smt.Term {
	var t *smt.Term
	for _, v := range in {
		bt := i.termOf(v)
		if t == nil {
			t = bt
		} else {
			t = i.ctx.Concat(t, bt)
		}
	}
	return t
}

func (i *interpreter) sha256Of(in []value) []value {
	h := i.hs()
	c := i.ctx
	if b, ok := concreteBytes(in); ok {
		if a, ok := h.byStr[string(b)]; ok {
			return append([]value(nil), a.res...)
		}
		sum := sha256.Sum256(b)
		res := make([]value, 32)
		for k := range sum {
			res[k] = sum[k]
		}
		a := &hashApp{n: len(b), out: c.BV(new(big.Int).SetBytes(sum[:]), 256), res: res, inb: append([]value(nil), in...)}
		if len(b) > 0 {
			a.in = c.BV(new(big.Int).SetBytes(b), 8*len(b))
		}
		h.byStr[string(b)] = a
		h.byConc[string(sum[:])] = a
		i.hashAxioms(a)
		h.apps = append(h.apps, a)
		return append([]value(nil), res...)
	}
	inT := i.bytesTerm(in)
	if a, ok := h.byIn[inT]; ok {
		return append([]value(nil), a.res...)
	}
	out := c.Var(fmt.Sprintf("sha256!%d", len(h.apps)), 256)
	res := make([]value, 32)
	for k := 0; k < 32; k++ {
		res[k] = mkSym(c.Extract(out, 255-8*k, 248-8*k), types.Uint8)
	}
	a := &hashApp{n: len(in), in: inT, out: out, sym: true, res: res, inb: append([]value(nil), in...)}
	h.byIn[inT] = a
	h.byOut[out] = a
	i.assertPC(c.BNot(c.Eq(out, c.BV(new(big.Int), 256))))
	i.hashAxioms(a)
	h.apps = append(h.apps, a)
	i.usedHashModel = true
	return append([]value(nil), res...)
}

func (i *interpreter) hashAxioms(a *hashApp) {
	c := i.ctx
	for _, b := range i.hs().apps {
		if !a.sym && !b.sym {
			continue
		}
		oe := c.Eq(a.out, b.out)
		if a.n != b.n || a.n == 0 || surelyDifferent(a.inb, b.inb) {
			i.assertPC(c.BNot(oe))
			continue
		}
		ie := c.Eq(a.in, b.in)
		// ie <=> oe
		i.assertPC(c.BOr(c.BNot(ie), oe))
		i.assertPC(c.BOr(c.BNot(oe), ie))
	}
}

func hashRecv(a []value) *value { return a[0].(*value) }

func registerHash() {
	intrinsics["encoding/gob.Register"] = nop // pokt-network/smt registers its proof types in an init function
	intrinsics["crypto/sha256.New"] = func(fr *frame, a []value) value {
		pkg := fr.i.prog.ImportedPackage("crypto/sha256")
		if pkg == nil {
			panic(unsupported("crypto/sha256 not loaded"))
		}
		dt := pkg.Members["digest"].(*ssa.Type).Type()
		p := new(value)
		*p = zero(dt)
		fr.i.hs().bufs[p] = nil
		return iface{t: types.NewPointer(dt), v: p}
	}
	intrinsics["(*crypto/sha256.digest).Write"] = func(fr *frame, a []value) value {
		h := fr.i.hs()
		p := hashRecv(a)
		b := a[1].([]value)
		h.bufs[p] = append(h.bufs[p], b...)
		return tuple{len(b), iface{}}
	}
	intrinsics["(*crypto/sha256.digest).Reset"] = func(fr *frame, a []value) value {
		fr.i.hs().bufs[hashRecv(a)] = nil
		return nil
	}
	intrinsics["(*crypto/sha256.digest).Sum"] = func(fr *frame, a []value) value {
		sum := fr.i.sha256Of(fr.i.hs().bufs[hashRecv(a)])
		b, _ := a[1].([]value)
		return append(append([]value(nil), b...), sum...)
	}
	intrinsics["(*crypto/sha256.digest).Size"] = func(fr *frame, a []value) value { return int(32) }
	intrinsics["(*crypto/sha256.digest).BlockSize"] = func(fr *frame, a []value) value { return int(64) }
	intrinsics["crypto/sha256.Sum256"] = func(fr *frame, a []value) value {
		return array(fr.i.sha256Of(a[0].([]value)))
	}
}

// digestAt: bytes[k:k+32] are exactly the 32 bytes, in order, of one digest taken on this path (symbolic: the
// extracts of its variable; concrete: the bytes of a real digest computed on this path, or the all-zero
// placeholder, reported as app == nil, zero == true).
func (i *interpreter) digestAt(b []value, k int) (app *hashApp, zero bool, ok bool) {
	if i.hash == nil || k+32 > len(b) {
		return nil, false, false
	}
	if s0, isSym := b[k].(*Sym); isSym {
		if s0.T.Op != smt.OpExtract || s0.T.A != 255 || s0.T.B != 248 {
			return nil, false, false
		}
		v := s0.T.Args[0]
		a := i.hash.byOut[v]
		if a == nil {
			return nil, false, false
		}
		for j := 1; j < 32; j++ {
			sj, isSym := b[k+j].(*Sym)
			if !isSym || sj.T.Op != smt.OpExtract || sj.T.Args[0] != v || sj.T.A != 255-8*j || sj.T.B != 248-8*j {
				return nil, false, false
			}
		}
		return a, false, true
	}
	raw := make([]byte, 32)
	allZero := true
	for j := 0; j < 32; j++ {
		c, isConc := b[k+j].(uint8)
		if !isConc {
			return nil, false, false
		}
		raw[j] = c
		if c != 0 {
			allZero = false
		}
	}
	if allZero {
		return nil, true, true
	}
	if a := i.hash.byConc[string(raw)]; a != nil {
		return a, false, true
	}
	return nil, false, false
}

// seqEq compares two byte sequences of equal length. Where both hold a whole digest at the same position the
// comparison is made on the digests (one 256-bit equality, decided at once by the hash model when the inputs
// are known to differ) instead of 32 byte equalities that only the solver could relate to the axioms.
func (i *interpreter) seqEq(xb, yb []value) value {
	var acc value = true
	for k := 0; k < len(xb); {
		if i.hash != nil && len(i.hash.byOut) > 0 {
			ax, zx, okx := i.digestAt(xb, k)
			ay, zy, oky := i.digestAt(yb, k)
			if okx && oky && (ax != nil && ax.sym || ay != nil && ay.sym) {
				var r value
				switch {
				case zx || zy:
					r = false // a digest is never the all-zero placeholder (axiom)
				case ax == ay:
					r = true
				case ax.n != ay.n || ax.n == 0 || surelyDifferent(ax.inb, ay.inb):
					r = false // collision freedom (axiom)
				default:
					r = mkSym(i.ctx.Eq(ax.out, ay.out), types.Bool)
				}
				acc = i.andV(acc, r)
				if acc == false {
					return false
				}
				k += 32
				continue
			}
		}
		acc = i.andV(acc, i.equalsV(nil, xb[k], yb[k]))
		if acc == false {
			return false
		}
		k++
	}
	return acc
}
