package gosym

import (
	"fmt"
	"go/token"
	"go/types"
	"os"
	"runtime"
	"sort"
	"strings"
	"sync"

	"gosym/smt"

	"golang.org/x/tools/go/ssa"
)

// The concurrency layer. Interpreted goroutines are host goroutines, but only the holder of the baton runs.
// See DESIGN.md section 3.6 and Appendix C for the rules implemented here.

const (
	tRunnable = iota
	tParked
	tDone
)

type vclock []int

func (a vclock) join(b vclock) vclock {
	for len(a) < len(b) {
		a = append(a, 0)
	}
	for k, v := range b {
		if v > a[k] {
			a[k] = v
		}
	}
	return a
}

func (a vclock) copy() vclock { return append(vclock(nil), a...) }

func (a vclock) get(k int) int {
	if k < len(a) {
		return a[k]
	}
	return 0
}

type thread struct {
	id         int
	i          *interpreter
	resume     chan struct{}
	state      int
	parkedOn   string
	wakeIf     func() bool // predicate-style parking; nil = woken explicitly by a counterpart
	vc         vclock
	depth      int
	inInit     int
	mustFinish bool
	sel        *selWait
	name       string
	initFr     *frame
}

func (th *thread) initFrame() *frame {
	if th.initFr == nil {
		th.initFr = &frame{i: th.i, th: th}
	}
	return th.initFr
}

func (th *thread) tick() {
	for len(th.vc) <= th.id {
		th.vc = append(th.vc, 0)
	}
	th.vc[th.id]++
}

type outcome struct {
	kind   string
	detail string
}

type shadow struct {
	wTid, wClk int
	wPos       token.Pos
	r          vclock
	rPos       map[int]token.Pos
}

type sched struct {
	threads  []*thread
	cur      *thread
	preempts int
	schedLog []string
	doneCh   chan outcome
	finished bool
	dead     bool
	hostWG   sync.WaitGroup
	finMu    sync.Mutex
	traceOn  bool

	mutexes     map[*value]*mutexState
	rwms        map[*value]*rwState
	wgs         map[*value]*wgState
	onces       map[*value]*onceState
	conds       map[*value]*condState
	atomVC      map[*value]vclock
	atomVal     map[*value]value // atomic.Value / atomic.Pointer contents
	shadows     map[*value]*shadow
	mainEnd     bool
	tryLockUsed bool

	clock *clockState
}

// runThreads runs fn as the main goroutine and returns the run's outcome.
func (i *interpreter) runThreads(fn *ssa.Function) outcome {
	i.doneCh = make(chan outcome, 1)
	i.mutexes = map[*value]*mutexState{}
	i.rwms = map[*value]*rwState{}
	i.wgs = map[*value]*wgState{}
	i.onces = map[*value]*onceState{}
	i.conds = map[*value]*condState{}
	i.atomVC = map[*value]vclock{}
	i.atomVal = map[*value]value{}
	i.shadows = map[*value]*shadow{}
	main := i.newThread("main")
	i.cur = main
	i.startThread(main, fn, nil)
	main.resume <- struct{}{}
	out := <-i.doneCh
	// tear down: release every parked host goroutine
	i.finMu.Lock()
	i.dead = true
	for _, th := range i.threads {
		select {
		case th.resume <- struct{}{}:
		default:
		}
	}
	i.finMu.Unlock()
	i.hostWG.Wait()
	return out
}

func (i *interpreter) newThread(name string) *thread {
	th := &thread{id: len(i.threads), i: i, resume: make(chan struct{}, 1), name: name}
	i.threads = append(i.threads, th)
	return th
}

func (i *interpreter) finish(kind, detail string) {
	i.finMu.Lock()
	defer i.finMu.Unlock()
	if i.finished {
		return
	}
	i.finished = true
	i.doneCh <- outcome{kind, detail}
}

func (i *interpreter) startThread(th *thread, fn value, args []value) {
	i.hostWG.Add(1)
	go func() {
		defer i.hostWG.Done()
		<-th.resume
		if i.dead {
			return
		}
		defer func() {
			r := recover()
			if r == nil {
				return
			}
			switch r := r.(type) {
			case runAbort:
				if r.kind == "dead" {
					return
				}
				i.finish(r.kind, r.detail)
			case unsupportedErr:
				i.finish(OutUnsupported, r.what)
			case targetPanic, runtimeError:
				msg := panicString(r)
				i.violation("panic", "uncaught panic: "+msg, "goroutine "+th.name+" at "+i.panicAt, nil)
				i.finish(OutCrash, msg)
			case string:
				if strings.HasPrefix(r, "interface conversion") || strings.HasPrefix(r, "value method") || strings.HasPrefix(r, "runtime error") {
					// target-level panics that the interpreter raises as strings
					i.violation("panic", "uncaught panic: "+r, "goroutine "+th.name+" at "+i.panicAt, nil)
					i.finish(OutCrash, r)
				} else {
					i.finish(OutInternal, "host panic: "+r)
				}
			default:
				buf := make([]byte, 8192)
				buf = buf[:runtime.Stack(buf, false)]
				i.finish(OutInternal, fmt.Sprintf("host panic: %v: %s", r, firstFrames(string(buf))))
			}
		}()
		call(i, &frame{i: i, th: th}, token.NoPos, fn, args)
		th.state = tDone
		th.tick()
		if th.id == 0 {
			i.mainEnd = true
		}
		i.reschedule(th, false)
	}()
}

// candidates returns the threads that can run now.
func (i *interpreter) candidates() []*thread {
	var c []*thread
	for _, t := range i.threads {
		switch t.state {
		case tRunnable:
			c = append(c, t)
		case tParked:
			if t.wakeIf != nil && t.wakeIf() {
				c = append(c, t)
			}
		}
	}
	return c
}

// schedPoint is called by the running thread before a visible operation.
func (i *interpreter) schedPoint(th *thread, what string) {
	if len(i.threads) == 1 && i.clock == nil {
		return
	}
	if th.inInit > 0 {
		return
	}
	if schedLog {
		fmt.Fprintf(os.Stderr, "SCHED %-28s before %s\n", th.name, what)
	}
	i.reschedule(th, true)
}

var schedLog = os.Getenv("GOSYM_SCHEDLOG") != ""

// releasePoint: release operations (Unlock, RUnlock, WaitGroup.Done) are left movers: executing them before
// any operation of another goroutine that was scheduled in between leads to the same state, so no scheduling
// decision is taken before them (Lipton reduction). This does not hold once a TryLock variant is in play
// (its result depends on the exact moment of the release), so then they are ordinary scheduling points.
func (i *interpreter) releasePoint(th *thread, what string) {
	if i.tryLockUsed || i.opts.Params["noreduce"] == 1 {
		i.schedPoint(th, what)
	}
}

// reschedule picks the next thread to run. canContinue: th itself is able to go on.
func (i *interpreter) reschedule(th *thread, canContinue bool) {
	for {
		if i.dead {
			panic(runAbort{"dead", ""})
		}
		cands := i.candidates()
		if i.mainEnd {
			// the program ends when main returns, except that must-finish goroutines are run to completion
			pending := false
			for _, t := range i.threads {
				if t.mustFinish && t.state != tDone {
					pending = true
				}
			}
			if !pending {
				i.finish(OutDone, "")
				panic(runAbort{"dead", ""})
			}
		}
		if len(cands) == 0 {
			if i.clock != nil && i.clockAdvance() {
				continue
			}
			i.deadlock()
		}
		// order: current first (if it can continue), then by id
		sort.SliceStable(cands, func(a, b int) bool {
			if (cands[a] == th) != (cands[b] == th) {
				return cands[a] == th
			}
			return cands[a].id < cands[b].id
		})
		var opts []int
		selfCan := canContinue && th.state == tRunnable && len(cands) > 0 && cands[0] == th
		envOpts := 0
		if i.clock != nil {
			envOpts = i.clockEnabledActions()
		}
		if selfCan && i.preempts >= i.opts.Preempt {
			opts = []int{th.id}
		} else {
			for _, c := range cands {
				opts = append(opts, c.id)
			}
		}
		// environment actions (timer fire) are offered as negative options
		for k := 0; k < envOpts; k++ {
			opts = append(opts, -(k + 1))
		}
		pick := i.chooseFrom("sc", opts, "sched")
		if pick < 0 {
			i.clockDoAction(-pick - 1)
			continue
		}
		next := i.threads[pick]
		if selfCan && next != th {
			i.preempts++
		}
		if next == th {
			if th.state == tParked {
				th.state = tRunnable
				th.wakeIf = nil
			}
			return
		}
		if i.traceOn || true {
			if len(i.schedLog) < 400 {
				i.schedLog = append(i.schedLog, fmt.Sprintf("%s->%s", th.name, next.name))
			}
		}
		if next.state == tParked {
			next.state = tRunnable
			next.wakeIf = nil
		}
		i.cur = next
		next.resume <- struct{}{}
		if th.state == tDone {
			panic(runAbort{"dead", ""}) // host goroutine of a finished thread simply ends
		}
		<-th.resume
		if i.dead {
			panic(runAbort{"dead", ""})
		}
		i.cur = th
		if th.state == tRunnable {
			return
		}
		// woken although still parked (predicate re-check): loop
		if th.state == tParked && th.wakeIf != nil && th.wakeIf() {
			th.state = tRunnable
			th.wakeIf = nil
			return
		}
	}
}

func (i *interpreter) deadlock() {
	var parts []string
	for _, t := range i.threads {
		if t.state == tParked {
			parts = append(parts, fmt.Sprintf("%s blocked on %s", t.name, t.parkedOn))
		}
	}
	label := "deadlock: " + strings.Join(parts, "; ")
	i.violation("deadlock", label, "", nil)
	i.finish(OutDeadlock, label)
	panic(runAbort{"dead", ""})
}

// park blocks th until pred() holds (pred != nil) or until a counterpart makes it runnable (pred == nil).
func (i *interpreter) park(th *thread, on string, pred func() bool) {
	th.state = tParked
	th.parkedOn = on
	th.wakeIf = pred
	i.reschedule(th, false)
	th.parkedOn = ""
}

func (i *interpreter) goStmt(fr *frame, instr *ssa.Go, fn value, args []value) {
	th := fr.th
	name := fmt.Sprintf("g%d", len(i.threads))
	switch f := fn.(type) {
	case *ssa.Function:
		name += ":" + f.Name()
	case *closure:
		name += ":" + f.Fn.Name()
	}
	nt := i.newThread(name)
	th.tick()
	nt.vc = th.vc.copy()
	nt.tick()
	i.startThread(nt, fn, args)
	i.schedPoint(th, "go")
}

// ---------------------------------------------------------------------------
// race detection (happens-before, vector clocks)

func (i *interpreter) memAccess(fr *frame, addr *value, write bool) {
	if len(i.threads) <= 1 || fr == nil || fr.th == nil {
		return
	}
	th := fr.th
	if th.inInit > 0 {
		return
	}
	s := i.shadows[addr]
	if s == nil {
		s = &shadow{wTid: -1}
		i.shadows[addr] = s
	}
	clk := th.vc.get(th.id)
	var pos token.Pos
	if fr.block != nil {
		pos = fr.curPos()
	}
	// write-read / write-write
	if s.wTid >= 0 && s.wTid != th.id && s.wClk > th.vc.get(s.wTid) {
		i.race(addr, pos, s.wPos, th.id, s.wTid)
	}
	if write {
		for t, c := range s.r {
			if t != th.id && c > th.vc.get(t) {
				i.race(addr, pos, s.rPos[t], th.id, t)
			}
		}
		s.wTid, s.wClk, s.wPos = th.id, clk, pos
		s.r = nil
		s.rPos = nil
	} else {
		for len(s.r) <= th.id {
			s.r = append(s.r, 0)
		}
		s.r[th.id] = clk
		if s.rPos == nil {
			s.rPos = map[int]token.Pos{}
		}
		s.rPos[th.id] = pos
	}
}

func (fr *frame) curPos() token.Pos {
	return fr.pos
}

func (i *interpreter) race(addr *value, pos, other token.Pos, t1, t2 int) {
	p1 := i.prog.Fset.Position(pos)
	p2 := i.prog.Fset.Position(other)
	a, b := shortPos(p1.String(), i.p.RepoDir), shortPos(p2.String(), i.p.RepoDir)
	if b < a {
		a, b = b, a
	}
	label := fmt.Sprintf("data race between %s and %s", a, b)
	i.violation("race", label, fmt.Sprintf("%s / %s", i.threads[t1].name, i.threads[t2].name), nil)
	i.finish(OutViolation, label)
	panic(runAbort{"dead", ""})
}

func shortPos(s, repo string) string {
	if repo == "" {
		repo = "/repo"
	}
	if k := strings.Index(s, repo+"/"); k >= 0 {
		s = s[k+len(repo)+1:]
	}
	if k := strings.LastIndex(s, ":"); k >= 0 {
		s = s[:k] // drop the column
	}
	return s
}

func (i *interpreter) acquire(th *thread, from vclock) {
	th.vc = th.vc.join(from)
}

func (i *interpreter) release(th *thread, into *vclock) {
	*into = (*into).join(th.vc)
	th.tick()
}

// ---------------------------------------------------------------------------
// sync.Mutex

type mutexState struct {
	locked bool
	owner  int
	vc     vclock
}

func (i *interpreter) mutex(p *value) *mutexState {
	m := i.mutexes[p]
	if m == nil {
		m = &mutexState{}
		i.mutexes[p] = m
	}
	return m
}

func (i *interpreter) fatal(msg string) {
	i.violation("panic", "fatal error: "+msg, "", nil)
	i.finish(OutCrash, "fatal error: "+msg)
	panic(runAbort{"dead", ""})
}

func (i *interpreter) mutexLock(th *thread, p *value) {
	i.schedPoint(th, "Mutex.Lock")
	m := i.mutex(p)
	for m.locked {
		i.park(th, "sync.Mutex.Lock", func() bool { return !m.locked })
	}
	m.locked = true
	m.owner = th.id
	i.acquire(th, m.vc)
}

func (i *interpreter) mutexTryLock(th *thread, p *value) bool {
	i.tryLockUsed = true
	i.schedPoint(th, "Mutex.TryLock")
	m := i.mutex(p)
	if m.locked {
		return false
	}
	m.locked = true
	m.owner = th.id
	i.acquire(th, m.vc)
	return true
}

func (i *interpreter) mutexUnlock(th *thread, p *value) {
	i.releasePoint(th, "Mutex.Unlock")
	m := i.mutex(p)
	if !m.locked {
		i.fatal("sync: unlock of unlocked mutex")
	}
	i.release(th, &m.vc)
	m.locked = false
}

// ---------------------------------------------------------------------------
// sync.RWMutex (Appendix C)

type rwState struct {
	wLocked    bool // inner writer mutex
	pending    bool // a writer has announced itself (holds or waits for the lock)
	active     int  // readers holding the lock
	readerWait int
	blocked    []*rwWaiter
	wvc        vclock // released by writers
	rvc        vclock // released by readers
}

type rwWaiter struct{ granted bool }

func (i *interpreter) rw(p *value) *rwState {
	m := i.rwms[p]
	if m == nil {
		m = &rwState{}
		i.rwms[p] = m
	}
	return m
}

func (i *interpreter) rwRLock(th *thread, p *value) {
	i.schedPoint(th, "RWMutex.RLock")
	m := i.rw(p)
	if !m.pending {
		m.active++
	} else {
		w := &rwWaiter{}
		m.blocked = append(m.blocked, w)
		i.park(th, "sync.RWMutex.RLock", func() bool { return w.granted })
	}
	i.acquire(th, m.wvc)
}

func (i *interpreter) rwTryRLock(th *thread, p *value) bool {
	i.tryLockUsed = true
	i.schedPoint(th, "RWMutex.TryRLock")
	m := i.rw(p)
	if m.pending {
		return false
	}
	m.active++
	i.acquire(th, m.wvc)
	return true
}

func (i *interpreter) rwRUnlock(th *thread, p *value) {
	i.releasePoint(th, "RWMutex.RUnlock")
	m := i.rw(p)
	if m.active <= 0 {
		i.fatal("sync: RUnlock of unlocked RWMutex")
	}
	i.release(th, &m.rvc)
	m.active--
	if m.pending && m.readerWait > 0 {
		m.readerWait--
	}
}

func (i *interpreter) rwLock(th *thread, p *value) {
	i.schedPoint(th, "RWMutex.Lock")
	m := i.rw(p)
	for m.wLocked {
		i.park(th, "sync.RWMutex.Lock", func() bool { return !m.wLocked })
	}
	m.wLocked = true
	m.pending = true
	m.readerWait = m.active
	if m.readerWait > 0 {
		i.park(th, "sync.RWMutex.Lock (waiting for readers)", func() bool { return m.readerWait == 0 })
	}
	i.acquire(th, m.wvc)
	i.acquire(th, m.rvc)
}

func (i *interpreter) rwTryLock(th *thread, p *value) bool {
	i.tryLockUsed = true
	i.schedPoint(th, "RWMutex.TryLock")
	m := i.rw(p)
	if m.wLocked || m.active > 0 {
		return false
	}
	m.wLocked = true
	m.pending = true
	m.readerWait = 0
	i.acquire(th, m.wvc)
	i.acquire(th, m.rvc)
	return true
}

func (i *interpreter) rwUnlock(th *thread, p *value) {
	i.releasePoint(th, "RWMutex.Unlock")
	m := i.rw(p)
	if !m.wLocked || !m.pending {
		i.fatal("sync: Unlock of unlocked RWMutex")
	}
	i.release(th, &m.wvc)
	m.pending = false
	for _, w := range m.blocked {
		w.granted = true
		m.active++
	}
	m.blocked = nil
	m.wLocked = false
}

// ---------------------------------------------------------------------------
// sync.WaitGroup

type wgState struct {
	n  int64
	vc vclock
}

func (i *interpreter) wg(p *value) *wgState {
	w := i.wgs[p]
	if w == nil {
		w = &wgState{}
		i.wgs[p] = w
	}
	return w
}

func (i *interpreter) wgAdd(th *thread, p *value, d int64) {
	if d < 0 {
		i.releasePoint(th, "WaitGroup.Done")
	} else {
		i.schedPoint(th, "WaitGroup.Add")
	}
	w := i.wg(p)
	if d < 0 {
		i.release(th, &w.vc)
	}
	w.n += d
	if w.n < 0 {
		panic(targetPanicString(i, "sync: negative WaitGroup counter"))
	}
}

func (i *interpreter) wgWait(th *thread, p *value) {
	i.schedPoint(th, "WaitGroup.Wait")
	w := i.wg(p)
	if w.n != 0 {
		i.park(th, "sync.WaitGroup.Wait", func() bool { return w.n == 0 })
	}
	i.acquire(th, w.vc)
}

// ---------------------------------------------------------------------------
// sync.Once

type onceState struct {
	done    bool
	running bool
	vc      vclock
}

func (i *interpreter) onceDo(fr *frame, p *value, f value) {
	th := fr.th
	i.schedPoint(th, "Once.Do")
	o := i.onces[p]
	if o == nil {
		o = &onceState{}
		i.onces[p] = o
	}
	if o.done {
		i.acquire(th, o.vc)
		return
	}
	for o.running {
		i.park(th, "sync.Once.Do", func() bool { return !o.running })
	}
	if o.done {
		i.acquire(th, o.vc)
		return
	}
	o.running = true
	defer func() {
		o.done = true
		o.running = false
		i.release(th, &o.vc)
	}()
	call(i, fr, token.NoPos, f, nil)
}

// ---------------------------------------------------------------------------
// sync.Cond

type condState struct {
	waiters []*condWaiter
}

type condWaiter struct{ signaled bool }

func (i *interpreter) cond(p *value) *condState {
	c := i.conds[p]
	if c == nil {
		c = &condState{}
		i.conds[p] = c
	}
	return c
}

// condLocker returns the Locker stored in field L of the sync.Cond at p.
func (i *interpreter) condLocker(p *value) iface {
	st := (*p).(structure)
	// type Cond struct { noCopy noCopy; L Locker; notify notifyList; checker copyChecker }
	return st[1].(iface)
}

func (i *interpreter) condWait(fr *frame, p *value) {
	th := fr.th
	// taking the ticket is a visible operation: its order relative to Signal/Broadcast decides about wake-ups
	i.schedPoint(th, "Cond.Wait")
	c := i.cond(p)
	w := &condWaiter{}
	c.waiters = append(c.waiters, w) // ticket taken before unlocking
	l := i.condLocker(p)
	if l.t == nil {
		panic(runtimeError("invalid memory address or nil pointer dereference (Cond.L is nil)"))
	}
	i.callMethod(fr, l.t, l.v, nil, "Unlock")
	if !w.signaled {
		i.park(th, "sync.Cond.Wait", func() bool { return w.signaled })
	}
	i.callMethod(fr, l.t, l.v, nil, "Lock")
}

func (i *interpreter) condSignal(th *thread, p *value) {
	i.schedPoint(th, "Cond.Signal")
	c := i.cond(p)
	if len(c.waiters) > 0 {
		c.waiters[0].signaled = true
		c.waiters = c.waiters[1:]
	}
}

func (i *interpreter) condBroadcast(th *thread, p *value) {
	i.schedPoint(th, "Cond.Broadcast")
	c := i.cond(p)
	for _, w := range c.waiters {
		w.signaled = true
	}
	c.waiters = nil
}

// ---------------------------------------------------------------------------
// channels

type chanItem struct {
	v  value
	vc vclock
}

type channel struct {
	cap    int
	buf    []chanItem
	closed bool
	recvq  []*waiter
	sendq  []*waiter
	cvc    vclock // released by close
	timer  *timerState
}

type waiter struct {
	th  *thread
	sel *selWait
	idx int
	val value // value to send
}

type selWait struct {
	fired   bool
	chosen  int
	recvVal value
	recvOK  bool
	closedP bool // a parked sender finds the channel closed: it must panic
	vc      vclock
}

func (c *channel) length() int {
	if c == nil {
		return 0
	}
	return len(c.buf)
}

func (c *channel) capacity() int {
	if c == nil {
		return 0
	}
	return c.cap
}

func (i *interpreter) makeChan(n int) *channel {
	if n < 0 {
		panic(runtimeError("makechan: size out of range"))
	}
	return &channel{cap: n}
}

func popLive(q *[]*waiter) *waiter {
	for len(*q) > 0 {
		w := (*q)[0]
		*q = (*q)[1:]
		if !w.sel.fired {
			return w
		}
	}
	return nil
}

func hasLive(q []*waiter) bool {
	for _, w := range q {
		if !w.sel.fired {
			return true
		}
	}
	return false
}

// complete finishes a parked waiter's operation and makes its thread runnable.
func (i *interpreter) complete(w *waiter, v value, ok bool, vc vclock) {
	w.sel.fired = true
	w.sel.chosen = w.idx
	w.sel.recvVal = v
	w.sel.recvOK = ok
	w.sel.vc = vc
	w.th.state = tRunnable
	w.th.wakeIf = nil
}

func (i *interpreter) sendReady(c *channel) bool {
	return c != nil && (c.closed || hasLive(c.recvq) || len(c.buf) < c.cap)
}

func (i *interpreter) recvReady(c *channel) bool {
	return c != nil && (len(c.buf) > 0 || hasLive(c.sendq) || c.closed)
}

// doSend performs a send that is known to be ready.
func (i *interpreter) doSend(th *thread, c *channel, v value) {
	if c.closed {
		panic(targetPanicString(i, "send on closed channel"))
	}
	th.tick()
	if w := popLive(&c.recvq); w != nil {
		i.complete(w, v, true, th.vc.copy())
		if c.cap == 0 {
			// rendezvous: the receive also happens before the send completes
			i.acquire(th, w.th.vc)
		}
		return
	}
	c.buf = append(c.buf, chanItem{v, th.vc.copy()})
}

// doRecv performs a receive that is known to be ready.
func (i *interpreter) doRecv(th *thread, c *channel, zeroV func() value) (value, bool) {
	if len(c.buf) > 0 {
		it := c.buf[0]
		c.buf = c.buf[1:]
		i.acquire(th, it.vc)
		if w := popLive(&c.sendq); w != nil {
			c.buf = append(c.buf, chanItem{w.val, w.th.vc.copy()})
			i.complete(w, nil, true, nil)
		}
		return it.v, true
	}
	if w := popLive(&c.sendq); w != nil {
		v := w.val
		i.acquire(th, w.th.vc)
		th.tick()
		i.complete(w, nil, true, th.vc.copy())
		return v, true
	}
	if c.closed {
		i.acquire(th, c.cvc)
		return zeroV(), false
	}
	panic("doRecv: not ready")
}

func (i *interpreter) chanSend(fr *frame, c *channel, v value) {
	th := fr.th
	i.schedPoint(th, "chan send")
	if c == nil {
		i.park(th, "send on nil channel", func() bool { return false })
	}
	if i.sendReady(c) {
		i.doSend(th, c, v)
		return
	}
	sw := &selWait{}
	c.sendq = append(c.sendq, &waiter{th: th, sel: sw, val: v})
	th.tick()
	i.park(th, "chan send", nil)
	if sw.closedP {
		panic(targetPanicString(i, "send on closed channel"))
	}
	i.acquire(th, sw.vc)
}

func (i *interpreter) chanRecv(fr *frame, c *channel, elem types.Type) (value, bool) {
	th := fr.th
	i.schedPoint(th, "chan recv")
	if c == nil {
		i.park(th, "receive from nil channel", func() bool { return false })
	}
	if c.timer != nil {
		i.timerBeforeRecv(th, c)
	}
	if i.recvReady(c) {
		return i.doRecv(th, c, func() value { return zero(elem) })
	}
	sw := &selWait{}
	c.recvq = append(c.recvq, &waiter{th: th, sel: sw})
	i.park(th, "chan receive", nil)
	i.acquire(th, sw.vc)
	if !sw.recvOK {
		return zero(elem), false
	}
	return sw.recvVal, true
}

func (i *interpreter) chanClose(fr *frame, c *channel) {
	th := fr.th
	i.schedPoint(th, "close")
	if c == nil {
		panic(targetPanicString(i, "close of nil channel"))
	}
	if c.closed {
		panic(targetPanicString(i, "close of closed channel"))
	}
	c.closed = true
	i.release(th, &c.cvc)
	for {
		w := popLive(&c.recvq)
		if w == nil {
			break
		}
		i.complete(w, nil, false, c.cvc.copy())
	}
	for {
		w := popLive(&c.sendq)
		if w == nil {
			break
		}
		w.sel.closedP = true
		i.complete(w, nil, false, nil)
	}
}

func (i *interpreter) selectStmt(fr *frame, instr *ssa.Select) value {
	th := fr.th
	i.schedPoint(th, "select")
	type st struct {
		c    *channel
		send bool
		v    value
		elem types.Type
	}
	states := make([]st, len(instr.States))
	for k, s := range instr.States {
		c, _ := fr.get(s.Chan).(*channel)
		states[k] = st{c: c, send: s.Dir == types.SendOnly, elem: s.Chan.Type().Underlying().(*types.Chan).Elem()}
		if states[k].send {
			states[k].v = copyVal(fr.get(s.Send))
		}
		if c != nil && c.timer != nil {
			i.timerBeforeRecv(th, c)
		}
	}
	result := func(chosen int, recvOK bool, recv value) value {
		r := tuple{chosen, recvOK}
		for k, s := range states {
			if !s.send {
				if k == chosen && recvOK {
					r = append(r, recv)
				} else {
					r = append(r, zero(s.elem))
				}
			}
		}
		return r
	}
	var ready []int
	for k, s := range states {
		if s.c == nil {
			continue
		}
		if (s.send && i.sendReady(s.c)) || (!s.send && i.recvReady(s.c)) {
			ready = append(ready, k)
		}
	}
	if len(ready) > 0 {
		k := i.chooseFrom("sel", ready, "select")
		s := states[k]
		if s.send {
			i.doSend(th, s.c, s.v)
			return result(k, false, nil)
		}
		v, ok := i.doRecv(th, s.c, func() value { return zero(s.elem) })
		return result(k, ok, v)
	}
	if !instr.Blocking {
		return result(-1, false, nil)
	}
	sw := &selWait{}
	n := 0
	for k, s := range states {
		if s.c == nil {
			continue
		}
		n++
		w := &waiter{th: th, sel: sw, idx: k, val: s.v}
		if s.send {
			s.c.sendq = append(s.c.sendq, w)
		} else {
			s.c.recvq = append(s.c.recvq, w)
		}
	}
	th.tick()
	if n == 0 {
		i.park(th, "select with no ready-able case", func() bool { return false })
	}
	i.park(th, "select", nil)
	k := sw.chosen
	if states[k].send {
		if sw.closedP {
			panic(targetPanicString(i, "send on closed channel"))
		}
		i.acquire(th, sw.vc)
		return result(k, false, nil)
	}
	i.acquire(th, sw.vc)
	return result(k, sw.recvOK, sw.recvVal)
}

// ---------------------------------------------------------------------------
// atomics

func (i *interpreter) atomicOp(th *thread, p *value, what string) {
	i.schedPoint(th, what)
	vc := i.atomVC[p]
	th.vc = th.vc.join(vc)
	th.tick()
	i.atomVC[p] = vc.join(th.vc)
}

var _ = smt.Unsat
