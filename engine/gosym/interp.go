// Copyright 2013 The Go Authors. All rights reserved.
// Use of this source code is governed by a BSD-style
// license that can be found in the LICENSE.xtools file.
//
// This file started as golang.org/x/tools/go/ssa/interp/interp.go (v0.29.0). It was turned into a symbolic
// executor: symbolic scalars, decision vectors, interpreter-owned goroutines, lazy package initialisation.

package gosym

import (
	"fmt"
	"go/token"
	"go/types"
	"math/big"
	"os"
	"runtime"
	"slices"
	"sort"
	"strings"

	"gosym/smt"

	"golang.org/x/tools/go/ssa"
)

type continuation int

const (
	kNext continuation = iota
	kReturn
	kJump
)

// zeroSize reports whether values of t occupy no memory (accesses to them are not memory accesses).
func zeroSize(t types.Type) bool {
	switch u := t.Underlying().(type) {
	case *types.Struct:
		for k := 0; k < u.NumFields(); k++ {
			if !zeroSize(u.Field(k).Type()) {
				return false
			}
		}
		return true
	case *types.Array:
		return u.Len() == 0 || zeroSize(u.Elem())
	}
	return false
}

func mustDeref(t types.Type) types.Type {
	if p, ok := t.Underlying().(*types.Pointer); ok {
		return p.Elem()
	}
	panic(fmt.Sprintf("mustDeref: not a pointer: %s", t))
}

// interpreter is the state of one run.
type interpreter struct {
	p       *Program
	prog    *ssa.Program
	ctx     *smt.Ctx
	solver  *smt.Solver
	opts    Options
	harness string

	globals map[*ssa.Global]*value
	inited  map[*ssa.Package]bool

	runtimeErrorString types.Type

	// decisions
	prefix        []Decision
	pos           int
	trace         []Decision
	alts          [][]Decision
	pc            []*smt.Term
	violations    []*Violation
	cover         map[string]bool
	funcs         map[string]bool
	steps         int64
	unknowns      int
	inconclusive  []string
	nondets       []nondet
	nondetCount   map[string]int
	replayModel   map[string]string
	replayEnv     map[string]*big.Int
	evalMemo      map[int]*big.Int
	obs           []string
	allocBudget   int64 // -1 = off
	stamp         int
	ghostState    map[string]value
	hash          *hashState
	usedHashModel bool
	panicAt       string // where the panic that is currently unwinding was raised (diagnostics)

	sched
}

type deferred struct {
	fn    value
	args  []value
	instr *ssa.Defer
	tail  *deferred
}

type frame struct {
	i                *interpreter
	th               *thread
	caller           *frame
	fn               *ssa.Function
	block, prevBlock *ssa.BasicBlock
	env              map[ssa.Value]value // dynamic values of SSA variables
	locals           []value
	defers           *deferred
	result           value
	panicking        bool
	panic            interface{}
	phitemps         []value // temporaries for parallel phi assignment
	pos              token.Pos
	sink             *sinkInfo
	loopCount        map[*ssa.BasicBlock]int
}

func (fr *frame) get(key ssa.Value) value {
	switch key := key.(type) {
	case nil:
		return nil
	case *ssa.Function, *ssa.Builtin:
		return key
	case *ssa.Const:
		return constValue(key)
	case *ssa.Global:
		return fr.i.globalAddr(key)
	}
	if r, ok := fr.env[key]; ok {
		return r
	}
	panic(fmt.Sprintf("get: no value for %T: %v", key, key.Name()))
}

// globalAddr returns the cell of a global, initialising its package lazily.
func (i *interpreter) globalAddr(g *ssa.Global) *value {
	if r, ok := i.globals[g]; ok {
		return r
	}
	pkg := g.Pkg
	if !i.inited[pkg] {
		i.initPackage(pkg)
	}
	if r, ok := i.globals[g]; ok {
		return r
	}
	panic(fmt.Sprintf("no storage for global %s", g))
}

func (i *interpreter) initPackage(pkg *ssa.Package) {
	if i.inited[pkg] {
		return
	}
	i.inited[pkg] = true
	for _, m := range pkg.Members {
		if v, ok := m.(*ssa.Global); ok {
			cell := zero(mustDeref(v.Type()))
			i.globals[v] = &cell
		}
	}
	if i.p.skipInit(pkg.Pkg.Path()) {
		return
	}
	if init := pkg.Func("init"); init != nil && init.Blocks != nil {
		th := i.cur
		saved := th.inInit
		th.inInit++
		call(i, th.initFrame(), token.NoPos, init, nil)
		th.inInit = saved
	}
}

// runDefer runs a deferred call d.
// It always returns normally, but may set or clear fr.panic.
func (fr *frame) runDefer(d *deferred) {
	var ok bool
	defer func() {
		if !ok {
			r := recover()
			if ab, isAbort := r.(runAbort); isAbort {
				panic(ab)
			}
			// Deferred call created a new state of panic.
			fr.panicking = true
			fr.panic = r
		}
	}()
	call(fr.i, fr, d.instr.Pos(), d.fn, d.args)
	ok = true
}

// runDefers executes fr's deferred function calls in LIFO order.
func (fr *frame) runDefers() {
	for d := fr.defers; d != nil; d = d.tail {
		fr.runDefer(d)
	}
	fr.defers = nil
	if fr.panicking {
		panic(fr.panic) // new panic, or still panicking
	}
}

// lookupMethod returns the method set for type typ.
func lookupMethod(i *interpreter, typ types.Type, meth *types.Func) *ssa.Function {
	return i.prog.LookupMethod(typ, meth.Pkg(), meth.Name())
}

// visitInstr interprets a single ssa.Instruction within the activation
// record frame.  It returns a continuation value indicating where to
// read the next instruction from.
func visitInstr(fr *frame, instr ssa.Instruction) continuation {
	i := fr.i
	switch instr := instr.(type) {
	case *ssa.DebugRef:
		// no-op

	case *ssa.UnOp:
		if fr.sink != nil {
			if _, postponed := fr.sink.after[instr]; postponed {
				break // executed right after the call it is postponed behind (see evalorder.go)
			}
		}
		fr.env[instr] = i.unop(fr, instr, fr.get(instr.X))

	case *ssa.BinOp:
		fr.env[instr] = i.binop(instr.Op, instr.X.Type(), fr.get(instr.X), fr.get(instr.Y))

	case *ssa.Call:
		fn, args := prepareCall(fr, &instr.Call)
		fr.env[instr] = call(fr.i, fr, instr.Pos(), fn, args)
		if fr.sink != nil {
			for _, ld := range fr.sink.calls[instr] {
				fr.env[ld] = i.unop(fr, ld, fr.get(ld.X))
			}
		}

	case *ssa.ChangeInterface:
		fr.env[instr] = fr.get(instr.X)

	case *ssa.ChangeType:
		fr.env[instr] = fr.get(instr.X) // (can't fail)

	case *ssa.Convert:
		fr.env[instr] = i.conv(instr.Type(), instr.X.Type(), fr.get(instr.X))

	case *ssa.SliceToArrayPointer:
		fr.env[instr] = sliceToArrayPointer(instr.Type(), instr.X.Type(), fr.get(instr.X))

	case *ssa.MakeInterface:
		fr.env[instr] = iface{t: instr.X.Type(), v: fr.get(instr.X)}

	case *ssa.Extract:
		fr.env[instr] = fr.get(instr.Tuple).(tuple)[instr.Index]

	case *ssa.Slice:
		fr.env[instr] = i.slice(fr.get(instr.X), fr.get(instr.Low), fr.get(instr.High), fr.get(instr.Max))

	case *ssa.Return:
		switch len(instr.Results) {
		case 0:
		case 1:
			fr.result = fr.get(instr.Results[0])
		default:
			var res []value
			for _, r := range instr.Results {
				res = append(res, fr.get(r))
			}
			fr.result = tuple(res)
		}
		fr.block = nil
		return kReturn

	case *ssa.RunDefers:
		fr.runDefers()

	case *ssa.Panic:
		panic(targetPanic{fr.get(instr.X)})

	case *ssa.Send:
		i.chanSend(fr, fr.get(instr.Chan).(*channel), copyVal(fr.get(instr.X)))

	case *ssa.Store:
		addr := fr.get(instr.Addr).(*value)
		if addr == nil {
			panic(runtimeError("invalid memory address or nil pointer dereference"))
		}
		if !zeroSize(mustDeref(instr.Addr.Type())) {
			i.memAccess(fr, addr, true)
		}
		store(mustDeref(instr.Addr.Type()), addr, fr.get(instr.Val))

	case *ssa.If:
		succ := 1
		if i.truth(fr.get(instr.Cond)) {
			succ = 0
		}
		fr.prevBlock, fr.block = fr.block, fr.block.Succs[succ]
		return kJump

	case *ssa.Jump:
		fr.prevBlock, fr.block = fr.block, fr.block.Succs[0]
		return kJump

	case *ssa.Defer:
		fn, args := prepareCall(fr, &instr.Call)
		defers := &fr.defers
		if into := fr.get(instr.DeferStack); into != nil {
			defers = into.(**deferred)
		}
		*defers = &deferred{
			fn:    fn,
			args:  args,
			instr: instr,
			tail:  *defers,
		}

	case *ssa.Go:
		fn, args := prepareCall(fr, &instr.Call)
		i.goStmt(fr, instr, fn, args)

	case *ssa.MakeChan:
		fr.env[instr] = i.makeChan(int(i.concInt(fr.get(instr.Size), "make(chan) size")))

	case *ssa.Alloc:
		var addr *value
		if instr.Heap {
			// new
			addr = new(value)
			fr.env[instr] = addr
		} else {
			// local
			addr = fr.env[instr].(*value)
		}
		*addr = zero(mustDeref(instr.Type()))

	case *ssa.MakeSlice:
		n := i.makeLen(fr.get(instr.Len), "make([]T) len")
		c := i.makeLen(fr.get(instr.Cap), "make([]T) cap")
		if n < 0 {
			panic(runtimeError("makeslice: len out of range"))
		}
		if c < n {
			panic(runtimeError("makeslice: cap out of range"))
		}
		tElt := instr.Type().Underlying().(*types.Slice).Elem()
		i.chargeAlloc(c, tElt)
		slice := make([]value, c)
		for k := range slice {
			slice[k] = zero(tElt)
		}
		fr.env[instr] = slice[:n]

	case *ssa.MakeMap:
		fr.env[instr] = makeMap(instr.Type().Underlying().(*types.Map).Key())

	case *ssa.Range:
		x := fr.get(instr.X)
		if m, ok := x.(*omap); ok && m != nil {
			i.memAccess(fr, m.loc(), false)
		}
		if m, ok := x.(*omap); ok && m != nil && i.opts.ReverseMaps {
			rev := make([]*mentry, 0, len(m.entries))
			for k := len(m.entries) - 1; k >= 0; k-- {
				rev = append(rev, m.entries[k])
			}
			fr.env[instr] = &mapIter{entries: rev}
		} else {
			fr.env[instr] = rangeIter(x, instr.X.Type())
		}

	case *ssa.Next:
		fr.env[instr] = fr.get(instr.Iter).(iter).next()

	case *ssa.FieldAddr:
		p := fr.get(instr.X).(*value)
		if p == nil {
			panic(runtimeError("invalid memory address or nil pointer dereference"))
		}
		fr.env[instr] = &(*p).(structure)[instr.Field]

	case *ssa.Field:
		fr.env[instr] = fr.get(instr.X).(structure)[instr.Field]

	case *ssa.IndexAddr:
		x := fr.get(instr.X)
		idx := fr.get(instr.Index)
		switch x := x.(type) {
		case []value:
			k := i.indexIn(idx, len(x))
			fr.env[instr] = &x[k]
		case *value: // *array
			if x == nil {
				panic(runtimeError("invalid memory address or nil pointer dereference"))
			}
			a := (*x).(array)
			k := i.indexIn(idx, len(a))
			fr.env[instr] = &a[k]
		default:
			panic(fmt.Sprintf("unexpected x type in IndexAddr: %T", x))
		}

	case *ssa.Index:
		x := fr.get(instr.X)
		idx := fr.get(instr.Index)

		switch x := x.(type) {
		case array:
			fr.env[instr] = i.indexRead([]value(x), idx)
		case string:
			k := i.indexIn(idx, len(x))
			fr.env[instr] = x[k]
		case *SymStr:
			fr.env[instr] = i.indexRead(x.B, idx)
		default:
			panic(fmt.Sprintf("unexpected x type in Index: %T", x))
		}

	case *ssa.Lookup:
		x := fr.get(instr.X)
		switch x := x.(type) {
		case string:
			k := i.indexIn(fr.get(instr.Index), len(x))
			fr.env[instr] = x[k]
		case *SymStr:
			fr.env[instr] = i.indexRead(x.B, fr.get(instr.Index))
		default:
			if m, ok := x.(*omap); ok && m != nil {
				i.memAccess(fr, m.loc(), false)
			}
			fr.env[instr] = i.lookup(instr, x, fr.get(instr.Index))
		}

	case *ssa.MapUpdate:
		m := fr.get(instr.Map)
		key := fr.get(instr.Key)
		v := fr.get(instr.Value)
		switch m := m.(type) {
		case *omap:
			if m == nil {
				panic(targetPanicString(i, "assignment to entry in nil map"))
			}
			i.memAccess(fr, m.loc(), true)
			m.insert(i, copyVal(key), copyVal(v))
		default:
			panic(fmt.Sprintf("illegal map type: %T", m))
		}

	case *ssa.TypeAssert:
		fr.env[instr] = typeAssert(fr.i, instr, fr.get(instr.X).(iface))

	case *ssa.MakeClosure:
		var bindings []value
		for _, binding := range instr.Bindings {
			bindings = append(bindings, fr.get(binding))
		}
		fr.env[instr] = &closure{instr.Fn.(*ssa.Function), bindings}

	case *ssa.Phi:
		panic("unreachable") // phis are processed at block entry

	case *ssa.Select:
		fr.env[instr] = i.selectStmt(fr, instr)

	default:
		panic(fmt.Sprintf("unexpected instruction: %T", instr))
	}

	return kNext
}

func targetPanicString(i *interpreter, s string) targetPanic {
	return targetPanic{iface{i.runtimeErrorString, s}}
}

// indexIn returns a concrete in-range index or raises the index-out-of-range panic.
func (i *interpreter) indexIn(idx value, n int) int {
	if s, ok := idx.(*Sym); ok {
		w, sg := kindInfo(s.K)
		c := i.ctx
		var inRange *smt.Term
		if sg {
			inRange = c.BAnd(c.Sle(c.BVU(0, w), s.T), c.Slt(s.T, c.BVI(int64(n), w)))
		} else {
			inRange = c.Ult(s.T, c.BVU(uint64(n), w))
		}
		if w < 64 && n >= 1<<uint(w-1) {
			inRange = c.True
			if sg {
				inRange = c.Sle(c.BVU(0, w), s.T)
			}
		}
		if !i.branch(inRange) {
			panic(runtimeError(fmt.Sprintf("index out of range [symbolic] with length %d", n)))
		}
		return int(i.concInt(idx, "index"))
	}
	k := asInt64(idx)
	if k < 0 || k >= int64(n) {
		panic(runtimeError(fmt.Sprintf("index out of range [%d] with length %d", k, n)))
	}
	return int(k)
}

// indexRead reads elems[idx]; a symbolic index over scalar elements becomes an ite-chain.
func (i *interpreter) indexRead(elems []value, idx value) value {
	s, ok := idx.(*Sym)
	if !ok {
		return elems[i.indexIn(idx, len(elems))]
	}
	allScalar := len(elems) > 0
	var k0 types.BasicKind
	for n, e := range elems {
		k, ok := kindOfValue(e)
		if !ok || (n > 0 && k != k0) {
			allScalar = false
			break
		}
		k0 = k
	}
	if !allScalar || len(elems) > 64 {
		return elems[i.indexIn(idx, len(elems))]
	}
	w, sg := kindInfo(s.K)
	c := i.ctx
	var inRange *smt.Term
	if sg {
		inRange = c.BAnd(c.Sle(c.BVU(0, w), s.T), c.Slt(s.T, c.BVI(int64(len(elems)), w)))
	} else {
		inRange = c.Ult(s.T, c.BVU(uint64(len(elems)), w))
	}
	if !i.branch(inRange) {
		panic(runtimeError(fmt.Sprintf("index out of range [symbolic] with length %d", len(elems))))
	}
	acc := i.termOf(elems[len(elems)-1])
	for n := len(elems) - 2; n >= 0; n-- {
		acc = c.Ite(c.Eq(s.T, c.BVU(uint64(n), w)), i.termOf(elems[n]), acc)
	}
	return mkSym(acc, k0)
}

// makeLen concretises a make() length; symbolic lengths are checked against the allocation budget first.
func (i *interpreter) makeLen(x value, what string) int64 {
	if s, ok := x.(*Sym); ok {
		w, sg := kindInfo(s.K)
		c := i.ctx
		if sg && i.branch(c.Slt(s.T, c.BVU(0, w))) {
			panic(runtimeError("makeslice: len out of range"))
		}
		if i.allocBudget >= 0 {
			if i.branch(c.Ult(c.BVU(uint64(i.allocBudget), w), s.T)) {
				i.violation("alloc", "allocation exceeds budget", fmt.Sprintf("%s, budget %d elements", what, i.allocBudget), nil)
				i.abort(OutViolation, "allocation exceeds budget")
			}
		} else {
			lim := int64(1 << 16)
			if i.branch(c.Ult(c.BVU(uint64(lim), w), s.T)) {
				i.abort(OutBound, "symbolic allocation size above 65536 elements ("+what+")")
			}
		}
		return i.concInt(x, what)
	}
	return asInt64(x)
}

func (i *interpreter) chargeAlloc(n int64, elem types.Type) {
	if i.allocBudget >= 0 && n > i.allocBudget {
		i.violation("alloc", "allocation exceeds budget", fmt.Sprintf("%d elements, budget %d", n, i.allocBudget), nil)
		i.abort(OutViolation, "allocation exceeds budget")
	}
	if n > 1<<24 {
		panic(runtimeError("makeslice: len out of range (engine cap 2^24)"))
	}
}

// prepareCall determines the function value and argument values for a
// function call in a Call, Go or Defer instruction, performing
// interface method lookup if needed.
func prepareCall(fr *frame, call *ssa.CallCommon) (fn value, args []value) {
	v := fr.get(call.Value)
	if call.Method == nil {
		// Function call.
		fn = v
	} else {
		// Interface method invocation.
		recv := v.(iface)
		if recv.t == nil {
			panic(runtimeError("invalid memory address or nil pointer dereference (method call on nil interface)"))
		}
		if f := lookupMethod(fr.i, recv.t, call.Method); f == nil {
			// Unreachable in well-typed programs.
			panic(fmt.Sprintf("method set for dynamic type %v does not contain %s", recv.t, call.Method))
		} else {
			fn = f
		}
		args = append(args, recv.v)
	}
	for _, arg := range call.Args {
		args = append(args, fr.get(arg))
	}
	return
}

// call interprets a call to a function (function, builtin or closure)
// fn with arguments args, returning its result.
// callpos is the position of the callsite.
func call(i *interpreter, caller *frame, callpos token.Pos, fn value, args []value) value {
	switch fn := fn.(type) {
	case *ssa.Function:
		if fn == nil {
			panic(runtimeError("invalid memory address or nil pointer dereference (call of nil func)"))
		}
		return callSSA(i, caller, callpos, fn, args, nil)
	case *closure:
		return callSSA(i, caller, callpos, fn.Fn, args, fn.Env)
	case *ssa.Builtin:
		return callBuiltin(caller, callpos, fn, args)
	}
	panic(fmt.Sprintf("cannot call %T", fn))
}

// callMethod calls method name on receiver value recv of dynamic type t (used by intrinsics).
func (i *interpreter) callMethod(caller *frame, t types.Type, recv value, pkg *types.Package, name string, args ...value) (value, bool) {
	f := i.findMethod(t, name)
	if f == nil {
		return nil, false
	}
	return call(i, caller, token.NoPos, f, append([]value{recv}, args...)), true
}

// callSSA interprets a call to function fn with arguments args,
// and lexical environment env, returning its result.
// callpos is the position of the callsite.
func callSSA(i *interpreter, caller *frame, callpos token.Pos, fn *ssa.Function, args []value, env []value) value {
	fr := &frame{
		i:      i,
		caller: caller, // for panic/recover
		fn:     fn,
	}
	if caller != nil {
		fr.th = caller.th
	} else {
		fr.th = i.cur
	}
	if intr := i.p.intrinsicFor(fn); intr != nil {
		return intr(fr, args)
	}
	if fn.Blocks == nil {
		panic(unsupported("function without body: " + fn.String()))
	}
	if fn.Synthetic == "package initializer" {
		// imports are initialised lazily, on first access to one of their globals
		if caller != nil && caller.fn != nil && caller.fn.Synthetic == "package initializer" {
			return nil
		}
	}

	// generic function body?
	if fn.TypeParams().Len() > 0 && len(fn.TypeArgs()) == 0 {
		panic(unsupported("uninstantiated generic function " + fn.String()))
	}
	if fr.th.depth > 2000 {
		i.abort(OutBound, "call depth above 2000 in "+fn.String())
	}
	fr.th.depth++
	defer func() { fr.th.depth-- }()
	if fn.Pkg != nil && i.p.isTarget(fn.Pkg.Pkg.Path()) {
		i.funcs[fn.String()] = true
	} else if fn.Origin() != nil && fn.Origin().Pkg != nil && i.p.isTarget(fn.Origin().Pkg.Pkg.Path()) {
		i.funcs[fn.String()] = true
	}

	fr.env = make(map[ssa.Value]value)
	if si := sinkFor(fn); len(si.after) > 0 {
		fr.sink = si
	}
	fr.block = fn.Blocks[0]
	fr.locals = make([]value, len(fn.Locals))
	for i, l := range fn.Locals {
		fr.locals[i] = zero(mustDeref(l.Type()))
		fr.env[l] = &fr.locals[i]
	}
	for i, p := range fn.Params {
		fr.env[p] = args[i]
	}
	for i, fv := range fn.FreeVars {
		fr.env[fv] = env[i]
	}
	for fr.block != nil {
		runFrame(fr)
	}
	return fr.result
}

// nativeReplayable: the decision vector contains only decisions a native run can be steered through (branches and
// values follow from the model, Choose decisions are replayed); schedule, select, clock and random decisions
// cannot.
func nativeReplayable(trace []Decision) bool {
	for _, d := range trace {
		switch d.K {
		case "sc", "sel", "clk", "rnd":
			return false
		}
	}
	return true
}

// envNondets: the run drew values from the modelled environment (symbolic clock, math/rand), which a native run
// takes from the real environment instead.
func (i *interpreter) envNondets() bool {
	for _, n := range i.nondets {
		if strings.HasPrefix(n.name, "clock.") || strings.HasPrefix(n.name, "rand") {
			return true
		}
	}
	return false
}

// runFrame executes SSA instructions starting at fr.block and
// continuing until a return, a panic, or a recovered panic.
func runFrame(fr *frame) {
	defer func() {
		if fr.block == nil {
			return // normal return
		}
		r := recover()
		switch r := r.(type) {
		case runAbort:
			panic(r)
		case unsupportedErr:
			panic(runAbort{OutUnsupported, r.what})
		case targetPanic, runtimeError:
		case runtime.Error:
			// host run-time errors that mirror target ones (index out of range, nil map write, ...)
			msg := r.Error()
			if strings.Contains(msg, "index out of range") || strings.Contains(msg, "slice bounds out of range") ||
				strings.Contains(msg, "divide by zero") || strings.Contains(msg, "makeslice") {
				// treated as a target panic below
			} else if strings.Contains(msg, "interface conversion") || strings.Contains(msg, "nil pointer") || strings.Contains(msg, "nil map") {
				// these come from the interpreter's own representation (value.(T) failed): engine defect or
				// unsupported construct, not a target behaviour
				buf := make([]byte, 4096)
				buf = buf[:runtime.Stack(buf, false)]
				chain := ""
				for c, n := fr.caller, 0; c != nil && c.fn != nil && n < 8; c, n = c.caller, n+1 {
					chain += " < " + c.fn.String()
				}
				panic(runAbort{OutInternal, fmt.Sprintf("%s in %s%s: %s", msg, fr.fn, chain, firstFrames(string(buf)))})
			}
		case string:
			if strings.HasPrefix(r, "interface conversion") || strings.HasPrefix(r, "value method") ||
				strings.HasPrefix(r, "runtime error") {
				// target-level panics raised by the interpreter as strings
			} else {
				panic(runAbort{OutInternal, r + " in " + fr.fn.String()})
			}
		default:
			panic(runAbort{OutInternal, fmt.Sprintf("%v in %s", r, fr.fn)})
		}
		if !fr.panicking && fr.i.panicAt == "" {
			fr.i.panicAt = fmt.Sprintf("%s (%s)", fr.fn, fr.i.prog.Fset.Position(fr.pos))
			for c, n := fr.caller, 0; c != nil && c.fn != nil && n < 8; c, n = c.caller, n+1 {
				fr.i.panicAt += " < " + c.fn.String()
			}
		}
		fr.panicking = true
		fr.panic = r
		fr.runDefers()
		fr.block = fr.fn.Recover
	}()

	i := fr.i
	for {
		if i.opts.LoopCap > 0 && len(fr.block.Preds) > 1 {
			if fr.loopCount == nil {
				fr.loopCount = map[*ssa.BasicBlock]int{}
			}
			fr.loopCount[fr.block]++
			if fr.loopCount[fr.block] > i.opts.LoopCap {
				i.abort(OutBound, fmt.Sprintf("loop cap %d at %s", i.opts.LoopCap, i.prog.Fset.Position(fr.block.Instrs[0].Pos())))
			}
		}
		nonPhis := executePhis(fr)
		for _, instr := range nonPhis {
			i.steps++
			if p := instr.Pos(); p.IsValid() {
				fr.pos = p
			}
			if i.steps > i.opts.MaxSteps {
				i.abort(OutBound, fmt.Sprintf("step cap %d", i.opts.MaxSteps))
			}
			if i.opts.Verbose && i.traceOn {
				if v, ok := instr.(ssa.Value); ok {
					fmt.Fprintln(os.Stderr, "\t", fr.fn.Name(), v.Name(), "=", instr)
				} else {
					fmt.Fprintln(os.Stderr, "\t", fr.fn.Name(), instr)
				}
			}
			if visitInstr(fr, instr) == kReturn {
				return
			}
			// Inv: kNext (continue) or kJump (last instr)
		}
	}
}

func firstFrames(s string) string {
	lines := strings.Split(s, "\n")
	var out []string
	for _, l := range lines {
		if strings.Contains(l, "gosym.") && !strings.Contains(l, "runFrame") && !strings.Contains(l, "panic") {
			out = append(out, strings.TrimSpace(l))
			if len(out) >= 4 {
				break
			}
		}
	}
	return strings.Join(out, " < ")
}

// executePhis executes the phi-nodes at the start of the current
// block and returns the non-phi instructions.
func executePhis(fr *frame) []ssa.Instruction {
	firstNonPhi := -1
	for i, instr := range fr.block.Instrs {
		if _, ok := instr.(*ssa.Phi); !ok {
			firstNonPhi = i
			break
		}
	}
	// Inv: 0 <= firstNonPhi; every block contains a non-phi.

	nonPhis := fr.block.Instrs[firstNonPhi:]
	if firstNonPhi > 0 {
		phis := fr.block.Instrs[:firstNonPhi]
		predIndex := slices.Index(fr.block.Preds, fr.prevBlock)
		fr.phitemps = fr.phitemps[:0]
		for _, phi := range phis {
			phi := phi.(*ssa.Phi)
			fr.phitemps = append(fr.phitemps, fr.get(phi.Edges[predIndex]))
		}
		for i, phi := range phis {
			fr.env[phi.(*ssa.Phi)] = fr.phitemps[i]
		}
	}
	return nonPhis
}

// doRecover implements the recover() built-in.
func doRecover(caller *frame) value {
	// recover() must be exactly one level beneath the deferred
	// function (two levels beneath the panicking function) to
	// have any effect.
	if caller != nil && !caller.panicking &&
		caller.caller != nil && caller.caller.panicking {
		caller.caller.panicking = false
		p := caller.caller.panic
		caller.caller.panic = nil

		switch p := p.(type) {
		case targetPanic:
			// The target program explicitly called panic().
			return p.v
		case runtimeError:
			return iface{caller.i.runtimeErrorString, p.Error()}
		case runtime.Error:
			// The interpreter encountered a runtime error.
			return iface{caller.i.runtimeErrorString, p.Error()}
		case string:
			// The interpreter explicitly called panic().
			return iface{caller.i.runtimeErrorString, p}
		default:
			panic(fmt.Sprintf("unexpected panic type %T in target call to recover()", p))
		}
	}
	return iface{}
}

func panicString(p interface{}) string {
	switch p := p.(type) {
	case targetPanic:
		if it, ok := p.v.(iface); ok {
			if s, ok := it.v.(string); ok {
				return s
			}
			return fmt.Sprintf("%s: %s", it.t, toString(it.v))
		}
		return toString(p.v)
	case runtimeError:
		return p.Error()
	case runtime.Error:
		return p.Error()
	case string:
		return p
	}
	return fmt.Sprint(p)
}

// runOnce executes the harness once under the given decision prefix.
func runOnce(p *Program, harness string, opts Options, ctx *smt.Ctx, solver *smt.Solver, prefix []Decision) (res *runResult) {
	i := &interpreter{
		p:           p,
		prog:        p.Prog,
		ctx:         ctx,
		solver:      solver,
		opts:        opts,
		harness:     harness,
		globals:     make(map[*ssa.Global]*value),
		inited:      make(map[*ssa.Package]bool),
		prefix:      prefix,
		cover:       map[string]bool{},
		funcs:       map[string]bool{},
		nondetCount: map[string]int{},
		allocBudget: -1,
	}
	if opts.ReplayModel != nil {
		i.replayModel = opts.ReplayModel
		i.replayEnv = map[string]*big.Int{}
		i.evalMemo = map[int]*big.Int{}
		// keep only the non-solver decisions
		var f []Decision
		for _, d := range prefix {
			switch d.K {
			case "br", "val", "as", "am":
			default:
				f = append(f, d)
			}
		}
		i.prefix = f
	}
	i.runtimeErrorString = p.Prog.ImportedPackage("runtime").Type("errorString").Object().Type()
	for solver.Depth() > 0 {
		solver.Pop()
	}
	solver.Push()
	res = &runResult{}
	fn := p.harnessFunc(harness)
	if fn == nil {
		res.outcome = OutInternal
		res.detail = "harness function not found: " + harness
		return res
	}
	out := i.runThreads(fn)
	res.outcome = out.kind
	res.detail = out.detail
	res.alts = i.alts
	res.trace = i.trace
	res.violations = i.violations
	res.cover = i.cover
	res.funcs = i.funcs
	res.steps = i.steps
	res.unknowns = i.unknowns
	res.maxPreempt = i.preempts
	res.threads = len(i.threads)
	res.obs = i.obs
	if len(i.inconclusive) > 0 && res.outcome == OutDone {
		res.outcome = OutBound
		res.detail = "solver returned unknown for assertion: " + strings.Join(i.inconclusive, "; ")
	}
	if res.outcome == OutDone && opts.wantSample != nil && len(i.threads) == 1 && len(i.nondets) <= 512 && len(i.violations) == 0 && nativeReplayable(i.trace) && !i.envNondets() && opts.wantSample(i.cover) {
		sm := &ValSample{Model: i.modelFor(nil), Obs: i.obs}
		if len(i.nondets) == 0 || len(sm.Model) > 0 {
			for _, d := range i.trace {
				if d.K == "ch" {
					sm.Choices = append(sm.Choices, int(d.N))
				}
			}
			for k := range i.cover {
				sm.Cover = append(sm.Cover, k)
			}
			sort.Strings(sm.Cover)
			res.sample = sm
		}
	}
	if res.outcome == OutDone && opts.Replay == nil && len(i.nondets) > 0 && len(i.nondets) <= 64 {
		// example inputs for the evidence samples (one model per completed path, cheap)
		if p.sampleModels {
			res.model = i.modelFor(nil)
		}
	}
	return res
}
