package gosym

import (
	"go/token"
	"go/types"
)

func registerAtomics() {
	for _, t := range []string{"Int32", "Int64", "Uint32", "Uint64", "Uintptr"} {
		intrinsics["sync/atomic.Add"+t] = func(fr *frame, a []value) value {
			p := a[0].(*value)
			fr.i.atomicOp(fr.th, p, "atomic.Add")
			*p = fr.i.binopV(token.ADD, *p, a[1])
			return *p
		}
		intrinsics["sync/atomic.And"+t] = func(fr *frame, a []value) value {
			p := a[0].(*value)
			fr.i.atomicOp(fr.th, p, "atomic.And")
			old := *p
			*p = fr.i.binopV(token.AND, *p, a[1])
			return old
		}
		intrinsics["sync/atomic.Or"+t] = func(fr *frame, a []value) value {
			p := a[0].(*value)
			fr.i.atomicOp(fr.th, p, "atomic.Or")
			old := *p
			*p = fr.i.binopV(token.OR, *p, a[1])
			return old
		}
	}
	for _, t := range []string{"Int32", "Int64", "Uint32", "Uint64", "Uintptr", "Pointer"} {
		intrinsics["sync/atomic.Load"+t] = func(fr *frame, a []value) value {
			p := a[0].(*value)
			fr.i.atomicOp(fr.th, p, "atomic.Load")
			return *p
		}
		intrinsics["sync/atomic.Store"+t] = func(fr *frame, a []value) value {
			p := a[0].(*value)
			fr.i.atomicOp(fr.th, p, "atomic.Store")
			*p = a[1]
			return nil
		}
		intrinsics["sync/atomic.Swap"+t] = func(fr *frame, a []value) value {
			p := a[0].(*value)
			fr.i.atomicOp(fr.th, p, "atomic.Swap")
			old := *p
			*p = a[1]
			return old
		}
		intrinsics["sync/atomic.CompareAndSwap"+t] = func(fr *frame, a []value) value {
			p := a[0].(*value)
			fr.i.atomicOp(fr.th, p, "atomic.CompareAndSwap")
			if fr.i.truth(fr.i.equalsV(nil, *p, a[1])) {
				*p = a[2]
				return true
			}
			return false
		}
	}
	// atomic.Pointer[T]: the std bodies go through unsafe.Pointer; model the cell directly.
	ptrZero := func(fr *frame) value {
		// result type of Load/Swap is *T
		return zero(fr.fn.Signature.Results().At(0).Type())
	}
	intrinsics["(*sync/atomic.Pointer[T]).Load"] = func(fr *frame, a []value) value {
		p := a[0].(*value)
		fr.i.atomicOp(fr.th, p, "atomic.Pointer.Load")
		if v, ok := fr.i.atomVal[p]; ok {
			return v
		}
		return ptrZero(fr)
	}
	intrinsics["(*sync/atomic.Pointer[T]).Store"] = func(fr *frame, a []value) value {
		p := a[0].(*value)
		fr.i.atomicOp(fr.th, p, "atomic.Pointer.Store")
		fr.i.atomVal[p] = a[1]
		return nil
	}
	intrinsics["(*sync/atomic.Pointer[T]).Swap"] = func(fr *frame, a []value) value {
		p := a[0].(*value)
		fr.i.atomicOp(fr.th, p, "atomic.Pointer.Swap")
		old, ok := fr.i.atomVal[p]
		if !ok {
			old = ptrZero(fr)
		}
		fr.i.atomVal[p] = a[1]
		return old
	}
	intrinsics["(*sync/atomic.Pointer[T]).CompareAndSwap"] = func(fr *frame, a []value) value {
		p := a[0].(*value)
		fr.i.atomicOp(fr.th, p, "atomic.Pointer.CompareAndSwap")
		cur, ok := fr.i.atomVal[p]
		if !ok {
			cur = (*value)(nil)
		}
		if cur.(*value) == a[1].(*value) {
			fr.i.atomVal[p] = a[2]
			return true
		}
		return false
	}
	// atomic.Value
	intrinsics["(*sync/atomic.Value).Load"] = func(fr *frame, a []value) value {
		p := a[0].(*value)
		fr.i.atomicOp(fr.th, p, "atomic.Value.Load")
		if v, ok := fr.i.atomVal[p]; ok {
			return v
		}
		return iface{}
	}
	intrinsics["(*sync/atomic.Value).Store"] = func(fr *frame, a []value) value {
		p := a[0].(*value)
		fr.i.atomicOp(fr.th, p, "atomic.Value.Store")
		v := a[1].(iface)
		if v.t == nil {
			panic(targetPanicString(fr.i, "sync/atomic: store of nil value into Value"))
		}
		if old, ok := fr.i.atomVal[p]; ok && !types.Identical(old.(iface).t, v.t) {
			panic(targetPanicString(fr.i, "sync/atomic: store of inconsistently typed value into Value"))
		}
		fr.i.atomVal[p] = v
		return nil
	}
	intrinsics["(*sync/atomic.Value).Swap"] = func(fr *frame, a []value) value {
		p := a[0].(*value)
		fr.i.atomicOp(fr.th, p, "atomic.Value.Swap")
		old, ok := fr.i.atomVal[p]
		if !ok {
			old = iface{}
		}
		fr.i.atomVal[p] = a[1]
		return old
	}
	intrinsics["(*sync/atomic.Value).CompareAndSwap"] = func(fr *frame, a []value) value {
		p := a[0].(*value)
		fr.i.atomicOp(fr.th, p, "atomic.Value.CompareAndSwap")
		cur, ok := fr.i.atomVal[p]
		if !ok {
			cur = iface{}
		}
		o := a[1].(iface)
		c := cur.(iface)
		if sameType(c.t, o.t) && (c.t == nil || fr.i.truth(fr.i.equalsV(c.t, c.v, o.v))) {
			fr.i.atomVal[p] = a[2]
			return true
		}
		return false
	}
}
