// Package smt is a small hash-consed bit-vector/bool term library that prints SMT-LIB2.
package smt

import (
	"fmt"
	"math/big"
	"strings"
)

type Op uint8

const (
	OpConst Op = iota // bit-vector constant (W>0) or bool constant (W==0)
	OpVar
	OpAdd
	OpSub
	OpMul
	OpUDiv
	OpURem
	OpSDiv
	OpSRem
	OpAnd
	OpOr
	OpXor
	OpNot // bvnot
	OpNeg
	OpShl
	OpLShr
	OpAShr
	OpConcat
	OpExtract // A=hi B=lo
	OpZExt    // A=extra bits
	OpSExt    // A=extra bits
	OpIte     // args: cond, then, else (bv or bool)
	// boolean
	OpBNot
	OpBAnd
	OpBOr
	OpEq
	OpUlt
	OpUle
	OpSlt
	OpSle
)

var opName = map[Op]string{
	OpAdd: "bvadd", OpSub: "bvsub", OpMul: "bvmul", OpUDiv: "bvudiv", OpURem: "bvurem", OpSDiv: "bvsdiv", OpSRem: "bvsrem",
	OpAnd: "bvand", OpOr: "bvor", OpXor: "bvxor", OpNot: "bvnot", OpNeg: "bvneg", OpShl: "bvshl", OpLShr: "bvlshr", OpAShr: "bvashr",
	OpConcat: "concat", OpIte: "ite", OpBNot: "not", OpBAnd: "and", OpBOr: "or", OpEq: "=", OpUlt: "bvult", OpUle: "bvule",
	OpSlt: "bvslt", OpSle: "bvsle",
}

// Term is an immutable, hash-consed term. W is the bit width, 0 for Bool.
type Term struct {
	Op   Op
	W    int
	Args []*Term
	Val  *big.Int // OpConst
	Name string   // OpVar
	A, B int
	ID   int
	ctx  *Ctx
}

// Ctx owns a term table. Not safe for concurrent use (one per worker).
type Ctx struct {
	table  map[string]*Term
	nextID int
	Vars   []*Term
	True   *Term
	False  *Term
}

func NewCtx() *Ctx {
	c := &Ctx{table: map[string]*Term{}}
	c.True = c.mk(&Term{Op: OpConst, W: 0, Val: big.NewInt(1)})
	c.False = c.mk(&Term{Op: OpConst, W: 0, Val: big.NewInt(0)})
	return c
}

func (c *Ctx) key(t *Term) string {
	var sb strings.Builder
	fmt.Fprintf(&sb, "%d:%d:%d:%d", t.Op, t.W, t.A, t.B)
	if t.Val != nil {
		sb.WriteByte('#')
		sb.WriteString(t.Val.Text(16))
	}
	if t.Name != "" {
		sb.WriteByte('$')
		sb.WriteString(t.Name)
	}
	for _, a := range t.Args {
		fmt.Fprintf(&sb, ",%d", a.ID)
	}
	return sb.String()
}

func (c *Ctx) mk(t *Term) *Term {
	k := c.key(t)
	if e, ok := c.table[k]; ok {
		return e
	}
	c.nextID++
	t.ID = c.nextID
	t.ctx = c
	c.table[k] = t
	if t.Op == OpVar {
		c.Vars = append(c.Vars, t)
	}
	return t
}

func mask(w int) *big.Int {
	m := new(big.Int).Lsh(big.NewInt(1), uint(w))
	return m.Sub(m, big.NewInt(1))
}

func norm(v *big.Int, w int) *big.Int {
	r := new(big.Int).And(v, mask(w))
	if v.Sign() < 0 {
		// two's complement
		m := new(big.Int).Lsh(big.NewInt(1), uint(w))
		r = new(big.Int).Mod(v, m)
	}
	return r
}

func signed(v *big.Int, w int) *big.Int {
	if v.Bit(w-1) == 1 {
		m := new(big.Int).Lsh(big.NewInt(1), uint(w))
		return new(big.Int).Sub(v, m)
	}
	return new(big.Int).Set(v)
}

// BV makes a constant of width w from v (two's complement wrap).
func (c *Ctx) BV(v *big.Int, w int) *Term {
	return c.mk(&Term{Op: OpConst, W: w, Val: norm(v, w)})
}
func (c *Ctx) BVU(v uint64, w int) *Term { return c.BV(new(big.Int).SetUint64(v), w) }
func (c *Ctx) BVI(v int64, w int) *Term  { return c.BV(big.NewInt(v), w) }
func (c *Ctx) Bool(b bool) *Term {
	if b {
		return c.True
	}
	return c.False
}
func (c *Ctx) Var(name string, w int) *Term { return c.mk(&Term{Op: OpVar, W: w, Name: name}) }

func (t *Term) IsConst() bool { return t.Op == OpConst }
func (t *Term) IsTrue() bool  { return t.Op == OpConst && t.W == 0 && t.Val.Sign() != 0 }
func (t *Term) IsFalse() bool { return t.Op == OpConst && t.W == 0 && t.Val.Sign() == 0 }
func (t *Term) Uint64() uint64 {
	return t.Val.Uint64()
}
func (t *Term) Signed() *big.Int { return signed(t.Val, t.W) }

func (c *Ctx) foldBin(op Op, x, y *Term) *Term {
	w := x.W
	a, b := x.Val, y.Val
	r := new(big.Int)
	switch op {
	case OpAdd:
		r.Add(a, b)
	case OpSub:
		r.Sub(a, b)
	case OpMul:
		r.Mul(a, b)
	case OpUDiv:
		if b.Sign() == 0 {
			return c.BV(mask(w), w)
		}
		r.Quo(a, b)
	case OpURem:
		if b.Sign() == 0 {
			return x
		}
		r.Rem(a, b)
	case OpSDiv:
		sa, sb := signed(a, w), signed(b, w)
		if sb.Sign() == 0 {
			if sa.Sign() < 0 {
				return c.BVU(1, w)
			}
			return c.BV(mask(w), w)
		}
		r.Quo(sa, sb)
	case OpSRem:
		sa, sb := signed(a, w), signed(b, w)
		if sb.Sign() == 0 {
			return x
		}
		r.Rem(sa, sb)
	case OpAnd:
		r.And(a, b)
	case OpOr:
		r.Or(a, b)
	case OpXor:
		r.Xor(a, b)
	case OpShl:
		if b.Cmp(big.NewInt(int64(w))) >= 0 {
			return c.BVU(0, w)
		}
		r.Lsh(a, uint(b.Uint64()))
	case OpLShr:
		if b.Cmp(big.NewInt(int64(w))) >= 0 {
			return c.BVU(0, w)
		}
		r.Rsh(a, uint(b.Uint64()))
	case OpAShr:
		sa := signed(a, w)
		sh := uint(w)
		if b.Cmp(big.NewInt(int64(w))) < 0 {
			sh = uint(b.Uint64())
		}
		r.Rsh(sa, sh)
	default:
		panic("foldBin")
	}
	return c.BV(r, w)
}

func (c *Ctx) bin(op Op, x, y *Term) *Term {
	if x.W != y.W || x.W == 0 {
		panic(fmt.Sprintf("smt: width mismatch %s %d %d", opName[op], x.W, y.W))
	}
	if x.IsConst() && y.IsConst() {
		return c.foldBin(op, x, y)
	}
	w := x.W
	// cheap identities
	switch op {
	case OpAdd, OpOr, OpXor:
		if x.IsConst() && x.Val.Sign() == 0 {
			return y
		}
		if y.IsConst() && y.Val.Sign() == 0 {
			return x
		}
	case OpSub, OpShl, OpLShr, OpAShr:
		if y.IsConst() && y.Val.Sign() == 0 {
			return x
		}
	case OpAnd:
		if x.IsConst() && x.Val.Sign() == 0 {
			return x
		}
		if y.IsConst() && y.Val.Sign() == 0 {
			return y
		}
		if x.IsConst() && x.Val.Cmp(mask(w)) == 0 {
			return y
		}
		if y.IsConst() && y.Val.Cmp(mask(w)) == 0 {
			return x
		}
	case OpMul:
		if x.IsConst() && x.Val.Sign() == 0 {
			return x
		}
		if y.IsConst() && y.Val.Sign() == 0 {
			return y
		}
		if x.IsConst() && x.Val.Cmp(big.NewInt(1)) == 0 {
			return y
		}
		if y.IsConst() && y.Val.Cmp(big.NewInt(1)) == 0 {
			return x
		}
	}
	if (op == OpSub || op == OpXor) && x == y {
		return c.BVU(0, w)
	}
	if (op == OpAnd || op == OpOr) && x == y {
		return x
	}
	return c.mk(&Term{Op: op, W: w, Args: []*Term{x, y}})
}

func (c *Ctx) Add(x, y *Term) *Term  { return c.bin(OpAdd, x, y) }
func (c *Ctx) Sub(x, y *Term) *Term  { return c.bin(OpSub, x, y) }
func (c *Ctx) Mul(x, y *Term) *Term  { return c.bin(OpMul, x, y) }
func (c *Ctx) UDiv(x, y *Term) *Term { return c.bin(OpUDiv, x, y) }
func (c *Ctx) URem(x, y *Term) *Term { return c.bin(OpURem, x, y) }
func (c *Ctx) SDiv(x, y *Term) *Term { return c.bin(OpSDiv, x, y) }
func (c *Ctx) SRem(x, y *Term) *Term { return c.bin(OpSRem, x, y) }
func (c *Ctx) And(x, y *Term) *Term  { return c.bin(OpAnd, x, y) }
func (c *Ctx) Or(x, y *Term) *Term   { return c.bin(OpOr, x, y) }
func (c *Ctx) Xor(x, y *Term) *Term  { return c.bin(OpXor, x, y) }
func (c *Ctx) Shl(x, y *Term) *Term  { return c.bin(OpShl, x, y) }
func (c *Ctx) LShr(x, y *Term) *Term { return c.bin(OpLShr, x, y) }
func (c *Ctx) AShr(x, y *Term) *Term { return c.bin(OpAShr, x, y) }

func (c *Ctx) Not(x *Term) *Term {
	if x.IsConst() {
		return c.BV(new(big.Int).Xor(x.Val, mask(x.W)), x.W)
	}
	if x.Op == OpNot {
		return x.Args[0]
	}
	return c.mk(&Term{Op: OpNot, W: x.W, Args: []*Term{x}})
}
func (c *Ctx) Neg(x *Term) *Term {
	if x.IsConst() {
		return c.BV(new(big.Int).Neg(x.Val), x.W)
	}
	return c.mk(&Term{Op: OpNeg, W: x.W, Args: []*Term{x}})
}

func (c *Ctx) Concat(hi, lo *Term) *Term {
	if hi.IsConst() && lo.IsConst() {
		v := new(big.Int).Lsh(hi.Val, uint(lo.W))
		v.Or(v, lo.Val)
		return c.BV(v, hi.W+lo.W)
	}
	// concat(extract(h,m+1,x), extract(m,l,x)) = extract(h,l,x)
	if hi.Op == OpExtract && lo.Op == OpExtract && hi.Args[0] == lo.Args[0] && hi.B == lo.A+1 {
		return c.Extract(hi.Args[0], hi.A, lo.B)
	}
	return c.mk(&Term{Op: OpConcat, W: hi.W + lo.W, Args: []*Term{hi, lo}})
}

func (c *Ctx) Extract(x *Term, hi, lo int) *Term {
	if hi < lo || hi >= x.W || lo < 0 {
		panic(fmt.Sprintf("smt: bad extract %d %d of %d", hi, lo, x.W))
	}
	if lo == 0 && hi == x.W-1 {
		return x
	}
	if x.IsConst() {
		v := new(big.Int).Rsh(x.Val, uint(lo))
		return c.BV(v, hi-lo+1)
	}
	switch x.Op {
	case OpExtract:
		return c.Extract(x.Args[0], hi+x.B, lo+x.B)
	case OpConcat:
		l := x.Args[1]
		if hi < l.W {
			return c.Extract(l, hi, lo)
		}
		if lo >= l.W {
			return c.Extract(x.Args[0], hi-l.W, lo-l.W)
		}
	case OpZExt:
		in := x.Args[0]
		if hi < in.W {
			return c.Extract(in, hi, lo)
		}
		if lo >= in.W {
			return c.BVU(0, hi-lo+1)
		}
	case OpSExt:
		in := x.Args[0]
		if hi < in.W {
			return c.Extract(in, hi, lo)
		}
	}
	return c.mk(&Term{Op: OpExtract, W: hi - lo + 1, Args: []*Term{x}, A: hi, B: lo})
}

func (c *Ctx) ZExt(x *Term, extra int) *Term {
	if extra == 0 {
		return x
	}
	if x.IsConst() {
		return c.BV(x.Val, x.W+extra)
	}
	if x.Op == OpZExt {
		return c.ZExt(x.Args[0], extra+x.A)
	}
	return c.mk(&Term{Op: OpZExt, W: x.W + extra, Args: []*Term{x}, A: extra})
}

func (c *Ctx) SExt(x *Term, extra int) *Term {
	if extra == 0 {
		return x
	}
	if x.IsConst() {
		return c.BV(signed(x.Val, x.W), x.W+extra)
	}
	return c.mk(&Term{Op: OpSExt, W: x.W + extra, Args: []*Term{x}, A: extra})
}

// Resize converts x to width w, sign- or zero-extending or truncating.
func (c *Ctx) Resize(x *Term, w int, signedSrc bool) *Term {
	switch {
	case w == x.W:
		return x
	case w < x.W:
		return c.Extract(x, w-1, 0)
	case signedSrc:
		return c.SExt(x, w-x.W)
	default:
		return c.ZExt(x, w-x.W)
	}
}

func (c *Ctx) Ite(cond, a, b *Term) *Term {
	if cond.W != 0 || a.W != b.W {
		panic("smt: bad ite")
	}
	if cond.IsTrue() {
		return a
	}
	if cond.IsFalse() {
		return b
	}
	if a == b {
		return a
	}
	if a.W == 0 {
		if a.IsTrue() && b.IsFalse() {
			return cond
		}
		if a.IsFalse() && b.IsTrue() {
			return c.BNot(cond)
		}
	}
	return c.mk(&Term{Op: OpIte, W: a.W, Args: []*Term{cond, a, b}})
}

func (c *Ctx) BNot(x *Term) *Term {
	if x.W != 0 {
		panic("smt: BNot of bv")
	}
	if x.IsConst() {
		return c.Bool(x.IsFalse())
	}
	if x.Op == OpBNot {
		return x.Args[0]
	}
	return c.mk(&Term{Op: OpBNot, Args: []*Term{x}})
}

func (c *Ctx) BAnd(x, y *Term) *Term {
	if x.W != 0 || y.W != 0 {
		panic("smt: BAnd of bv")
	}
	if x.IsFalse() || y.IsFalse() {
		return c.False
	}
	if x.IsTrue() {
		return y
	}
	if y.IsTrue() {
		return x
	}
	if x == y {
		return x
	}
	return c.mk(&Term{Op: OpBAnd, Args: []*Term{x, y}})
}

func (c *Ctx) BOr(x, y *Term) *Term {
	if x.W != 0 || y.W != 0 {
		panic("smt: BOr of bv")
	}
	if x.IsTrue() || y.IsTrue() {
		return c.True
	}
	if x.IsFalse() {
		return y
	}
	if y.IsFalse() {
		return x
	}
	if x == y {
		return x
	}
	return c.mk(&Term{Op: OpBOr, Args: []*Term{x, y}})
}

func (c *Ctx) Eq(x, y *Term) *Term {
	if x.W != y.W {
		panic(fmt.Sprintf("smt: Eq width mismatch %d %d", x.W, y.W))
	}
	if x == y {
		return c.True
	}
	if x.IsConst() && y.IsConst() {
		return c.Bool(x.Val.Cmp(y.Val) == 0)
	}
	if x.W == 0 {
		if x.IsTrue() {
			return y
		}
		if y.IsTrue() {
			return x
		}
		if x.IsFalse() {
			return c.BNot(y)
		}
		if y.IsFalse() {
			return c.BNot(x)
		}
	}
	if x.ID > y.ID {
		x, y = y, x
	}
	return c.mk(&Term{Op: OpEq, Args: []*Term{x, y}})
}

func (c *Ctx) cmp(op Op, x, y *Term) *Term {
	if x.W != y.W || x.W == 0 {
		panic("smt: cmp width mismatch")
	}
	if x.IsConst() && y.IsConst() {
		var r int
		if op == OpUlt || op == OpUle {
			r = x.Val.Cmp(y.Val)
		} else {
			r = signed(x.Val, x.W).Cmp(signed(y.Val, y.W))
		}
		if op == OpUlt || op == OpSlt {
			return c.Bool(r < 0)
		}
		return c.Bool(r <= 0)
	}
	if x == y {
		return c.Bool(op == OpUle || op == OpSle)
	}
	return c.mk(&Term{Op: op, Args: []*Term{x, y}})
}
func (c *Ctx) Ult(x, y *Term) *Term { return c.cmp(OpUlt, x, y) }
func (c *Ctx) Ule(x, y *Term) *Term { return c.cmp(OpUle, x, y) }
func (c *Ctx) Slt(x, y *Term) *Term { return c.cmp(OpSlt, x, y) }
func (c *Ctx) Sle(x, y *Term) *Term { return c.cmp(OpSle, x, y) }

func sortOf(w int) string {
	if w == 0 {
		return "Bool"
	}
	return fmt.Sprintf("(_ BitVec %d)", w)
}

func constStr(t *Term) string {
	if t.W == 0 {
		if t.Val.Sign() != 0 {
			return "true"
		}
		return "false"
	}
	if t.W%4 == 0 {
		s := t.Val.Text(16)
		return "#x" + strings.Repeat("0", t.W/4-len(s)) + s
	}
	s := t.Val.Text(2)
	return "#b" + strings.Repeat("0", t.W-len(s)) + s
}

// ref is how a term is referenced inside other expressions.
func ref(t *Term) string {
	switch t.Op {
	case OpConst:
		return constStr(t)
	case OpVar:
		return t.Name
	}
	return fmt.Sprintf("t%d", t.ID)
}

// body prints the one-level definition of a non-leaf term.
func body(t *Term) string {
	var sb strings.Builder
	switch t.Op {
	case OpExtract:
		fmt.Fprintf(&sb, "((_ extract %d %d) %s)", t.A, t.B, ref(t.Args[0]))
	case OpZExt:
		fmt.Fprintf(&sb, "((_ zero_extend %d) %s)", t.A, ref(t.Args[0]))
	case OpSExt:
		fmt.Fprintf(&sb, "((_ sign_extend %d) %s)", t.A, ref(t.Args[0]))
	default:
		sb.WriteByte('(')
		sb.WriteString(opName[t.Op])
		for _, a := range t.Args {
			sb.WriteByte(' ')
			sb.WriteString(ref(a))
		}
		sb.WriteByte(')')
	}
	return sb.String()
}

// Emit writes the declarations/definitions needed for t that are not yet in done, in dependency order.
func Emit(t *Term, done map[int]bool, out *strings.Builder) {
	if done[t.ID] {
		return
	}
	// iterative post-order to avoid deep recursion on long chains
	type fr struct {
		t *Term
		i int
	}
	stack := []fr{{t, 0}}
	for len(stack) > 0 {
		top := &stack[len(stack)-1]
		if done[top.t.ID] {
			stack = stack[:len(stack)-1]
			continue
		}
		if top.i < len(top.t.Args) {
			a := top.t.Args[top.i]
			top.i++
			if !done[a.ID] {
				stack = append(stack, fr{a, 0})
			}
			continue
		}
		tt := top.t
		done[tt.ID] = true
		switch tt.Op {
		case OpConst:
		case OpVar:
			fmt.Fprintf(out, "(declare-const %s %s)\n", tt.Name, sortOf(tt.W))
		default:
			fmt.Fprintf(out, "(define-fun t%d () %s %s)\n", tt.ID, sortOf(tt.W), body(tt))
		}
		stack = stack[:len(stack)-1]
	}
}

// Ref returns the SMT-LIB reference for t (valid once emitted).
func Ref(t *Term) string { return ref(t) }

// String prints the term fully expanded (for diagnostics; may be large).
func (t *Term) String() string {
	switch t.Op {
	case OpConst:
		return constStr(t)
	case OpVar:
		return t.Name
	case OpExtract:
		return fmt.Sprintf("((_ extract %d %d) %s)", t.A, t.B, t.Args[0])
	case OpZExt:
		return fmt.Sprintf("((_ zero_extend %d) %s)", t.A, t.Args[0])
	case OpSExt:
		return fmt.Sprintf("((_ sign_extend %d) %s)", t.A, t.Args[0])
	}
	var sb strings.Builder
	sb.WriteByte('(')
	sb.WriteString(opName[t.Op])
	for _, a := range t.Args {
		sb.WriteByte(' ')
		sb.WriteString(a.String())
	}
	sb.WriteByte(')')
	return sb.String()
}

// Eval evaluates t under an assignment of variables (by name). Missing variables evaluate to 0.
func Eval(t *Term, env map[string]*big.Int, memo map[int]*big.Int) *big.Int {
	if v, ok := memo[t.ID]; ok {
		return v
	}
	var r *big.Int
	c := t.ctx
	switch t.Op {
	case OpConst:
		r = t.Val
	case OpVar:
		if v, ok := env[t.Name]; ok {
			if t.W == 0 {
				r = v
			} else {
				r = norm(v, t.W)
			}
		} else {
			r = big.NewInt(0)
		}
	default:
		args := make([]*Term, len(t.Args))
		for i, a := range t.Args {
			v := Eval(a, env, memo)
			if a.W == 0 {
				args[i] = c.Bool(v.Sign() != 0)
			} else {
				args[i] = c.BV(v, a.W)
			}
		}
		var res *Term
		switch t.Op {
		case OpNot:
			res = c.Not(args[0])
		case OpNeg:
			res = c.Neg(args[0])
		case OpConcat:
			res = c.Concat(args[0], args[1])
		case OpExtract:
			res = c.Extract(args[0], t.A, t.B)
		case OpZExt:
			res = c.ZExt(args[0], t.A)
		case OpSExt:
			res = c.SExt(args[0], t.A)
		case OpIte:
			res = c.Ite(args[0], args[1], args[2])
		case OpBNot:
			res = c.BNot(args[0])
		case OpBAnd:
			res = c.BAnd(args[0], args[1])
		case OpBOr:
			res = c.BOr(args[0], args[1])
		case OpEq:
			res = c.Eq(args[0], args[1])
		case OpUlt, OpUle, OpSlt, OpSle:
			res = c.cmp(t.Op, args[0], args[1])
		default:
			res = c.foldBin(t.Op, args[0], args[1])
		}
		r = res.Val
	}
	memo[t.ID] = r
	return r
}
