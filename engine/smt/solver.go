package smt

import (
	"bufio"
	"bytes"
	"context"
	"fmt"
	"io"
	"math/big"
	"os"
	"os/exec"
	"strings"
	"sync"
	"time"
)

type Result int

const (
	Unsat Result = iota
	Sat
	Unknown
)

func (r Result) String() string { return [...]string{"unsat", "sat", "unknown"}[r] }

// Stats are accumulated per solver.
type Stats struct {
	Queries   int
	Sat       int
	Unsat     int
	Unknown   int
	Portfolio int
	Time      time.Duration
	BySolver  map[string]int
}

// Solver drives one long-lived `z3 -in` process. Assertions form a stack (Push/Pop).
type Solver struct {
	marker  int
	Ctx     *Ctx
	cmd     *exec.Cmd
	in      io.WriteCloser
	out     *bufio.Reader
	emitted map[int]bool
	Stats   Stats
	// TimeoutMs for the incremental solver; on unknown the portfolio is tried with PortfolioSec.
	TimeoutMs    int
	PortfolioSec int
	asserted     [][]*Term // assertion stack frames (for portfolio scripts)
	Log          io.Writer
	dead         bool
}

func NewSolver(ctx *Ctx) (*Solver, error) {
	s := &Solver{Ctx: ctx, emitted: map[int]bool{}, TimeoutMs: 10000, PortfolioSec: 60}
	s.Stats.BySolver = map[string]int{}
	if err := s.start(); err != nil {
		return nil, err
	}
	return s, nil
}

func (s *Solver) start() error {
	bin := "z3"
	if b := os.Getenv("GOSYM_Z3"); b != "" {
		bin = b
	}
	s.cmd = exec.Command(bin, "-in", "-smt2")
	var err error
	s.in, err = s.cmd.StdinPipe()
	if err != nil {
		return err
	}
	o, err := s.cmd.StdoutPipe()
	if err != nil {
		return err
	}
	s.cmd.Stderr = os.Stderr
	s.out = bufio.NewReaderSize(o, 1<<16)
	if err := s.cmd.Start(); err != nil {
		return err
	}
	s.send("(set-option :global-declarations true)\n(set-option :produce-models true)\n")
	s.emitted = map[int]bool{}
	s.asserted = [][]*Term{nil}
	return nil
}

func (s *Solver) Close() {
	if s.cmd != nil && !s.dead {
		s.in.Close()
		s.cmd.Process.Kill()
		s.cmd.Wait()
		s.dead = true
	}
}

func (s *Solver) send(str string) {
	if s.Log != nil {
		io.WriteString(s.Log, str)
	}
	io.WriteString(s.in, str)
}

func (s *Solver) readLine() (string, error) {
	l, err := s.out.ReadString('\n')
	return strings.TrimSpace(l), err
}

func (s *Solver) Push() {
	s.send("(push 1)\n")
	s.asserted = append(s.asserted, nil)
}

func (s *Solver) Pop() {
	s.send("(pop 1)\n")
	s.asserted = s.asserted[:len(s.asserted)-1]
}

// Depth is the number of pushed frames.
func (s *Solver) Depth() int { return len(s.asserted) - 1 }

func (s *Solver) Assert(t *Term) {
	if t.IsTrue() {
		return
	}
	var sb strings.Builder
	Emit(t, s.emitted, &sb)
	fmt.Fprintf(&sb, "(assert %s)\n", ref(t))
	s.send(sb.String())
	s.asserted[len(s.asserted)-1] = append(s.asserted[len(s.asserted)-1], t)
}

func (s *Solver) all() []*Term {
	var r []*Term
	for _, f := range s.asserted {
		r = append(r, f...)
	}
	return r
}

// Check checks satisfiability of the current stack plus extra (temporarily asserted).
func (s *Solver) Check(extra ...*Term) Result {
	start := time.Now()
	defer func() { s.Stats.Time += time.Since(start) }()
	s.Stats.Queries++
	for _, e := range extra {
		if e.IsFalse() {
			s.Stats.Unsat++
			return Unsat
		}
	}
	if len(extra) > 0 {
		s.Push()
		for _, e := range extra {
			s.Assert(e)
		}
		defer s.Pop()
	}
	if d := os.Getenv("GOSYM_DUMPALL"); d != "" {
		dumpN++
		os.WriteFile(fmt.Sprintf("%s/c%d_%d.smt2", d, os.Getpid(), dumpN), []byte(s.Script(nil)), 0o644)
	}
	s.send(fmt.Sprintf("(set-option :timeout %d)\n(check-sat)\n", s.TimeoutMs))
	r := s.readResult()
	if r == Unknown && s.PortfolioSec > 0 {
		s.Stats.Portfolio++
		r = s.portfolio()
	}
	switch r {
	case Sat:
		s.Stats.Sat++
	case Unsat:
		s.Stats.Unsat++
	default:
		s.Stats.Unknown++
	}
	return r
}

func (s *Solver) readResult() Result {
	// every check-sat is followed by an echo of a fresh marker; all lines up to the marker belong to this query.
	// Any (error ...) line makes the answer inconclusive, and nothing of this query can be left in the pipe for
	// the next one to read.
	s.marker++
	mark := fmt.Sprintf("gosym-sync-%d", s.marker)
	s.send("(echo \"" + mark + "\")\n")
	res := Unknown
	answered, failed := false, false
	for {
		l, err := s.readLine()
		if err != nil {
			s.dead = true
			return Unknown
		}
		switch {
		case l == mark || l == "\""+mark+"\"":
			if failed || !answered {
				return Unknown
			}
			if res != Unknown {
				s.Stats.BySolver["z3-incremental"]++
			}
			return res
		case l == "sat":
			res, answered = Sat, true
		case l == "unsat":
			res, answered = Unsat, true
		case l == "unknown" || l == "timeout":
			res, answered = Unknown, true
		case strings.HasPrefix(l, "(error"):
			fmt.Fprintln(os.Stderr, "smt: solver error:", l)
			failed = true
		}
	}
}

// Script renders the current assertion stack as a standalone SMT-LIB2 script.
func (s *Solver) Script(getModel []*Term) string {
	var sb strings.Builder
	sb.WriteString("(set-logic ALL)\n")
	done := map[int]bool{}
	for _, a := range s.all() {
		Emit(a, done, &sb)
		fmt.Fprintf(&sb, "(assert %s)\n", ref(a))
	}
	sb.WriteString("(check-sat)\n")
	if len(getModel) > 0 {
		for _, v := range getModel {
			Emit(v, done, &sb)
		}
		sb.WriteString("(get-value (")
		for _, v := range getModel {
			sb.WriteString(ref(v))
			sb.WriteByte(' ')
		}
		sb.WriteString("))\n")
	}
	return sb.String()
}

type pfAnswer struct {
	name string
	res  Result
	out  string
}

var portfolioSolvers = [][]string{
	{"z3-new", "-in", "-smt2"},
	{"cvc5", "--lang=smt2", "--produce-models"},
	{"z3", "-in", "-smt2"},
}

// runPortfolio runs the script on all back ends in parallel, first definite answer wins.
func runPortfolio(script string, sec int) pfAnswer {
	ctx, cancel := context.WithTimeout(context.Background(), time.Duration(sec)*time.Second)
	defer cancel()
	ch := make(chan pfAnswer, len(portfolioSolvers))
	var wg sync.WaitGroup
	for _, argv := range portfolioSolvers {
		argv := argv
		if _, err := exec.LookPath(argv[0]); err != nil {
			continue
		}
		wg.Add(1)
		go func() {
			defer wg.Done()
			cmd := exec.CommandContext(ctx, argv[0], argv[1:]...)
			sc := script
			if argv[0] != "cvc5" {
				sc = "(set-option :produce-models true)\n" + script
			}
			cmd.Stdin = strings.NewReader(sc)
			var out bytes.Buffer
			cmd.Stdout = &out
			cmd.Run()
			o := out.String()
			a := pfAnswer{name: argv[0], res: Unknown, out: o}
			if !strings.Contains(o, "(error") {
				first := strings.TrimSpace(strings.SplitN(o, "\n", 2)[0])
				if first == "sat" {
					a.res = Sat
				} else if first == "unsat" {
					a.res = Unsat
				}
			}
			ch <- a
		}()
	}
	go func() { wg.Wait(); close(ch) }()
	for a := range ch {
		if a.res != Unknown {
			cancel()
			return a
		}
	}
	return pfAnswer{res: Unknown}
}

var dumpN int

func (s *Solver) portfolio() Result {
	if d := os.Getenv("GOSYM_DUMP"); d != "" {
		dumpN++
		os.WriteFile(fmt.Sprintf("%s/q%d_%d.smt2", d, os.Getpid(), dumpN), []byte(s.Script(nil)), 0o644)
	}
	a := runPortfolio(s.Script(nil), s.PortfolioSec)
	if a.res != Unknown {
		s.Stats.BySolver[a.name+"-oneshot"]++
	}
	return a.res
}

// CrossCheck re-decides the current stack (+extra) on a different back end; returns its answer.
func (s *Solver) CrossCheck(sec int, extra ...*Term) (Result, string) {
	if len(extra) > 0 {
		s.asserted = append(s.asserted, extra)
		defer func() { s.asserted = s.asserted[:len(s.asserted)-1] }()
	}
	a := runPortfolio(s.Script(nil), sec)
	return a.res, a.name
}

// Model returns values for vars under the current stack plus extra; ok=false if not sat.
func (s *Solver) Model(vars []*Term, extra ...*Term) (map[string]*big.Int, bool) {
	if len(extra) > 0 {
		s.Push()
		for _, e := range extra {
			s.Assert(e)
		}
		defer s.Pop()
	}
	s.send(fmt.Sprintf("(set-option :timeout %d)\n(check-sat)\n", s.TimeoutMs))
	r := s.readResult()
	if r == Unknown {
		// try the portfolio with a model request
		a := runPortfolio(s.Script(vars), s.PortfolioSec)
		if a.res != Sat {
			return nil, false
		}
		rest := a.out
		if i := strings.Index(rest, "\n"); i >= 0 {
			rest = rest[i+1:]
		}
		return parseValues(rest), true
	}
	if r != Sat {
		return nil, false
	}
	if len(vars) == 0 {
		return map[string]*big.Int{}, true
	}
	var sb strings.Builder
	for _, v := range vars {
		Emit(v, s.emitted, &sb)
	}
	sb.WriteString("(get-value (")
	for _, v := range vars {
		sb.WriteString(ref(v))
		sb.WriteByte(' ')
	}
	sb.WriteString("))\n")
	s.send(sb.String())
	// read a balanced s-expression
	var buf strings.Builder
	depth := 0
	started := false
	for {
		l, err := s.out.ReadString('\n')
		if err != nil {
			s.dead = true
			return nil, false
		}
		buf.WriteString(l)
		for _, ch := range l {
			if ch == '(' {
				depth++
				started = true
			} else if ch == ')' {
				depth--
			}
		}
		if started && depth <= 0 {
			break
		}
	}
	return parseValues(buf.String()), true
}

// parseValues parses "((x #x01) (y #b1) (b true))".
func parseValues(s string) map[string]*big.Int {
	m := map[string]*big.Int{}
	toks := strings.Fields(strings.NewReplacer("(", " ( ", ")", " ) ").Replace(s))
	for i := 0; i+2 < len(toks); i++ {
		if toks[i] == "(" && toks[i+1] != "(" && toks[i+2] != "(" && toks[i+2] != ")" {
			name, val := toks[i+1], toks[i+2]
			v := new(big.Int)
			switch {
			case strings.HasPrefix(val, "#x"):
				v.SetString(val[2:], 16)
			case strings.HasPrefix(val, "#b"):
				v.SetString(val[2:], 2)
			case val == "true":
				v.SetInt64(1)
			case val == "false":
				v.SetInt64(0)
			default:
				continue
			}
			m[name] = v
		}
	}
	return m
}
