package verifrt

import "sync/atomic"

func atomicAdd(p *int64) int64 { return atomic.AddInt64(p, 1) }
