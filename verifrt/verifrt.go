// Package verifrt is the run-time interface between harnesses and the gosym engine.
//
// Under the engine every function here is intercepted by name (the bodies are not executed, except for the
// helpers that are ordinary Go built on the primitives, e.g. Bytes). Compiled natively the bodies replay a
// recorded counterexample: VERIF_REPLAY names a JSON file {"model":{name:decimal},"choices":[...]}.
package verifrt

import (
	"encoding/json"
	"fmt"
	"math/big"
	"os"
	"sort"
	"strconv"
	"sync"
)

type Integer interface {
	~int | ~int8 | ~int16 | ~int32 | ~int64 | ~uint | ~uint8 | ~uint16 | ~uint32 | ~uint64 | ~uintptr
}

type replayFile struct {
	Model   map[string]string `json:"model"`
	Choices []int             `json:"choices"`
	Params  map[string]int    `json:"params"`
}

var (
	rf       *replayFile
	counters = map[string]int{}
	choiceAt int
	// Failed is set when an assertion failed during a native replay.
	Failed []string
	// Covered collects cover labels during a native replay.
	Covered = map[string]bool{}
	// Observed collects observations during a native replay.
	Observed []string
)

func load() *replayFile {
	if rf != nil {
		return rf
	}
	rf = &replayFile{Model: map[string]string{}, Params: map[string]int{}}
	if p := os.Getenv("VERIF_REPLAY"); p != "" {
		b, err := os.ReadFile(p)
		if err != nil {
			panic(err)
		}
		if err := json.Unmarshal(b, rf); err != nil {
			panic(err)
		}
	}
	return rf
}

// Reset clears the replay state (between native replays in one process).
func Reset() {
	rf = nil
	counters = map[string]int{}
	choiceAt = 0
	Failed = nil
	Covered = map[string]bool{}
	Observed = nil
}

func key(name string) string {
	n := counters[name]
	counters[name]++
	if n == 0 {
		return name
	}
	return name + "#" + strconv.Itoa(n)
}

func modelValue(name string) *big.Int {
	k := key(name)
	v := new(big.Int)
	if s, ok := load().Model[k]; ok {
		v.SetString(s, 10)
	}
	return v
}

// Nondet returns an arbitrary value of integer type T.
func Nondet[T Integer](name string) T {
	v := modelValue(name)
	return T(v.Uint64())
}

// Bool returns an arbitrary boolean.
func Bool(name string) bool { return modelValue(name).Sign() != 0 }

func U8(name string) uint8   { return Nondet[uint8](name) }
func U16(name string) uint16 { return Nondet[uint16](name) }
func U32(name string) uint32 { return Nondet[uint32](name) }
func U64(name string) uint64 { return Nondet[uint64](name) }
func I8(name string) int8    { return Nondet[int8](name) }
func I16(name string) int16  { return Nondet[int16](name) }
func I32(name string) int32  { return Nondet[int32](name) }
func I64(name string) int64  { return Nondet[int64](name) }
func Int(name string) int    { return Nondet[int](name) }

// Choose returns an arbitrary value in 0..n-1; the engine enumerates all of them.
func Choose(name string, n int) int {
	if n <= 1 {
		return 0 // the engine records no decision for a choice with one alternative
	}
	r := load()
	if choiceAt < len(r.Choices) {
		c := r.Choices[choiceAt]
		choiceAt++
		return c
	}
	return 0
}

// Param returns a tier-dependent bound.
func Param(name string, def int) int {
	if v, ok := load().Params[name]; ok {
		return v
	}
	return def
}

// BytesN returns n arbitrary bytes.
func BytesN(name string, n int) []byte {
	b := make([]byte, n)
	for i := range b {
		b[i] = U8(name)
	}
	return b
}

// Bytes returns 0..maxLen arbitrary bytes (the length is a Choose decision).
func Bytes(name string, maxLen int) []byte {
	n := Choose(name+".len", maxLen+1)
	return BytesN(name, n)
}

type infeasible struct{}

// Assume restricts the explored inputs to those satisfying c.
func Assume(c bool) {
	if !c {
		panic(infeasible{})
	}
}

// Assert states the property.
func Assert(c bool, label string) {
	if !c {
		Failed = append(Failed, label)
		fmt.Println("VERIF-ASSERT-FAILED:", label)
	}
}

// Cover marks a point that the exploration must reach.
func Cover(label string) { Covered[label] = true }

// Observe logs a value; used to compare engine and native executions.
func Observe(label string, v any) { Observed = append(Observed, fmt.Sprintf("%s=%v", label, v)) }

// Yield is a scheduling point.
func Yield() {}

// MustFinish marks the calling goroutine: the run is a deadlock if it never terminates.
func MustFinish() {}

// AllocBudget makes any later allocation of more than n elements an assertion failure.
func AllocBudget(n int) {}

// RunReplay runs harness h natively under the replay file and reports whether the expected label failed.
func RunReplay(h func()) (failed []string, panicked any) {
	Reset()
	defer func() {
		if r := recover(); r != nil {
			if _, ok := r.(infeasible); ok {
				failed = append(Failed, "ASSUMPTION-FALSE")
				return
			}
			panicked = r
			failed = Failed
		}
	}()
	h()
	return Failed, nil
}

// Sample is one completed engine path replayed natively for translator validation.
type Sample struct {
	Harness string            `json:"harness"`
	Choices []int             `json:"choices"`
	Model   map[string]string `json:"model"`
	Params  map[string]int    `json:"params"`
}

// LoadSamples reads the sample list written by the engine.
func LoadSamples(path string) []Sample {
	b, err := os.ReadFile(path)
	if err != nil {
		panic(err)
	}
	var s []Sample
	if err := json.Unmarshal(b, &s); err != nil {
		panic(err)
	}
	return s
}

// RunSample runs harness h natively under the sample's model and choices.
func RunSample(s Sample, h func()) (failed []string, panicked any, cover []string, observed []string) {
	Reset()
	rf = &replayFile{Model: s.Model, Choices: s.Choices, Params: s.Params}
	if rf.Model == nil {
		rf.Model = map[string]string{}
	}
	if rf.Params == nil {
		rf.Params = map[string]int{}
	}
	func() {
		defer func() {
			if r := recover(); r != nil {
				if _, ok := r.(infeasible); ok {
					Failed = append(Failed, "ASSUMPTION-FALSE")
					return
				}
				panicked = r
			}
		}()
		h()
	}()
	for k := range Covered {
		cover = append(cover, k)
	}
	sort.Strings(cover)
	return Failed, panicked, cover, Observed
}

// ---------------------------------------------------------------------------
// exact arithmetic (specification side of C19). Under the engine these are double-width bit-vector terms.

func big2[T Integer](x T) *big.Int {
	var zero T
	if zero-1 < zero { // signed
		return big.NewInt(int64(x))
	}
	return new(big.Int).SetUint64(uint64(x))
}

func fits[T Integer](v *big.Int) (T, bool) {
	var zero T
	var r T
	if zero-1 < zero {
		if !v.IsInt64() {
			return 0, false
		}
		r = T(v.Int64())
		return r, big.NewInt(int64(r)).Cmp(v) == 0
	}
	if !v.IsUint64() {
		return 0, false
	}
	r = T(v.Uint64())
	return r, new(big.Int).SetUint64(uint64(r)).Cmp(v) == 0
}

// ExactAdd returns x+y and whether it is representable in T.
func ExactAdd[T Integer](x, y T) (T, bool) { return fits[T](new(big.Int).Add(big2(x), big2(y))) }

// ExactSub returns x-y and whether it is representable in T.
func ExactSub[T Integer](x, y T) (T, bool) { return fits[T](new(big.Int).Sub(big2(x), big2(y))) }

// ExactMul returns x*y and whether it is representable in T.
func ExactMul[T Integer](x, y T) (T, bool) { return fits[T](new(big.Int).Mul(big2(x), big2(y))) }

// ExactDiv returns the truncated quotient x/y (y != 0) and whether it is representable in T.
func ExactDiv[T Integer](x, y T) (T, bool) { return fits[T](new(big.Int).Quo(big2(x), big2(y))) }

// ExactShl returns x*2^s and whether it is representable in T.
func ExactShl[T Integer](x T, s uint8) (T, bool) {
	return fits[T](new(big.Int).Lsh(big2(x), uint(s)))
}

// ExactMulDiv64 returns floor(x*y/d) (d != 0) and whether it fits in 64 bits.
func ExactMulDiv64(x, y, d uint64) (uint64, bool) {
	p := new(big.Int).Mul(new(big.Int).SetUint64(x), new(big.Int).SetUint64(y))
	p.Quo(p, new(big.Int).SetUint64(d))
	return p.Uint64(), p.IsUint64()
}

// ---------------------------------------------------------------------------
// non-forking boolean helpers: under the engine these build one term instead of branching (harness oracles
// written with && / || fork the exploration at every operand).

func And(a, b bool) bool     { return a && b }
func Or(a, b bool) bool      { return a || b }
func Not(a bool) bool        { return !a }
func Implies(a, b bool) bool { return !a || b }

// B2I returns 1 if c else 0 (as one term).
func B2I(c bool) int {
	if c {
		return 1
	}
	return 0
}

// IteInt returns a if c else b (as one term).
func IteInt(c bool, a, b int) int {
	if c {
		return a
	}
	return b
}

// IteU64 returns a if c else b (as one term).
func IteU64(c bool, a, b uint64) uint64 {
	if c {
		return a
	}
	return b
}

// IteByte returns a if c else b (as one term).
func IteByte(c bool, a, b byte) byte {
	if c {
		return a
	}
	return b
}

var stampCounter int64

// Stamp returns the next value of a global ghost counter (invocation/response stamps). Under the engine it is
// neither a scheduling point nor a memory access seen by the race detector.
func Stamp() int {
	return int(atomicAdd(&stampCounter))
}

// ---------------------------------------------------------------------------
// ghost state: observations shared between goroutines of a harness that are not part of the program under
// test. Under the engine they are neither scheduling points nor visible to the race detector.

var (
	ghostMu  sync.Mutex
	ghostMap = map[string]any{}
)

// GhostPut stores v under name.
func GhostPut(name string, v any) {
	ghostMu.Lock()
	ghostMap[name] = v
	ghostMu.Unlock()
}

// GhostGet returns the value stored under name (nil if none).
func GhostGet(name string) any {
	ghostMu.Lock()
	defer ghostMu.Unlock()
	return ghostMap[name]
}

// GhostInt returns the int stored under name (0 if none).
func GhostInt(name string) int {
	v, _ := GhostGet(name).(int)
	return v
}

// GhostAdd adds d to the int stored under name and returns the new value.
func GhostAdd(name string, d int) int {
	ghostMu.Lock()
	defer ghostMu.Unlock()
	v, _ := ghostMap[name].(int)
	v += d
	ghostMap[name] = v
	return v
}
