module verifrt

go 1.22
